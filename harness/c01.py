"""C01 -- SMILES strings parse to exactly the molecule they denote (DESIGN 6/C01).

Tie between the Coq development and /repo, re-established on every run:
  * tr/translate_c01.py regenerates coq/gen/C01_Gen.v (symbol tables, bond_order_symbols, the
    implicit-valence table, the element list, the literal character sets of Parser.parse) from the
    source, fail-closed, and the theorems of coq/C01/Props.v are re-checked against it;
  * the hand model coq/C01/Model.v (one step per character of Parser.parse) is run against the
    implementation on every generated / mutated / random / enumerated string: exact equality of
    outcome class, atoms (label, charge, H count, class, stereo-mark flag), bond list (pairs in
    stored order, orders), Parser.charge and Parser.mult;
  * the reference reader coq/C01/Spec.v is run on the serialised syntax tree of every generated
    spelling (executable twin of theorem parse_spell_denote) and RDKit is the third, independent
    reader for elements / bonds / orders / H counts / charges.
"""
import itertools
import re
import sys

import networkx as nx

from common import REPO, VERIF, sh

TRUSTED_BASE = [
    "Coq 8.16.1 kernel + coqc (vm_compute only for finite sweeps over the generated symbol/element tables and for the concrete _refuted witnesses; no native_compute)",
    "Print Assumptions: every C01 theorem is closed under the global context (no axioms)",
    "translator tr/translate_c01.py (Python ast -> gen/C01_Gen.v; fail-closed); the tables are also compared with the runtime objects on every run",
    "hand model coq/C01/Model.v of Parser.parse, tied by exact model/implementation comparison on generated, mutated, random and bounded-exhaustive strings",
    "RDKit (Chem.MolFromSmiles) as independent reference reader; networkx isomorphism for re-spellings",
    "harness generators/serialisers (harness/c01.py): molecule generator, DFS speller, literal printers, the strict recogniser used only to NAME malformed classes",
]
ASSUMPTIONS = [
    "Strings are 7-bit ASCII (the model is over bytes; str.strip()/int() are modelled on ASCII); non-ASCII input is exercised on the implementation only",
    "Stereochemistry: only 'which atoms carry a mark' is modelled and compared, not handedness (no claim about E/Z or R/S correctness)",
    "Isomorphism of the molecules denoted by two different atom orders of the same graph is not mechanised: it is checked by the generator stream (networkx, RDKit canonical SMILES)",
]
RULE = ("streams: (valid) random molecular graphs (trees + ring closures + fused rings, organic subset, bracket atoms with "
        "H count/charge/class/@ marks, aromatic templates, / \\ marks) -> random DFS spellings -> ring-label rewritings; "
        "(malformed) single-character mutations, truncations, random strings over the SMILES alphabet; (enum) every string "
        "up to a length bound over a reduced alphabet; a case is non-trivial unless it is the bare one-atom string; "
        "distinct by the string itself")

SLICE = ["C01/Base.v", "C01/Model.v", "C01/Spec.v", "C01/LBasic.v", "C01/LStep.v", "C01/LAtom.v", "C01/LBracket.v",
         "C01/LSim.v", "C01/LChain.v", "C01/LMain.v", "C01/LReject.v", "C01/LReject2.v", "C01/Lemmas.v", "C01/Props.v",
         "C01/Corr.v", "gen/C01_Gen.v"]
PRE = ("From Coq Require Import List Ascii String ZArith NArith Bool.\nFrom AV.lib Require Import QcInst.\n"
       "From AV.C01 Require Import Base Model Spec Corr.\nImport ListNotations.\nOpen Scope string_scope.\n")

# deviation classes that the lenient reference reader (RDKit) itself accepts with the same meaning: they
# name a finding only when nothing else explains it
LENIENT = {"ring-label-after-branch"}
KNOWN_CLASS_KEYS = {
    "self-ring": "Parser.parse|self-ring-accepted",
    "duplicate-ring-bond": "Parser.parse|duplicate-ring-bond-accepted",
    "ring-bond-conflict": "Parser.parse|ring-bond-conflict",
    "percent-label-nondigit": "Parser.parse|percent-label-nondigit",
    "bracket-junk": "Parser.parse|bracket-junk-accepted",
    "aromatic-se-as": "Parser.parse|aromatic-se-as",
    "blank": "Parser.parse|blank-accepted",
}


# ================================================================ implementation side
def observe(s, parser=None):
    """Outcome of Parser().parse(s) (or of parser.parse(s) on a Parser that has been used before) as a
    canonical tuple."""
    from autode.smiles.parser import Parser
    from autode.exceptions import InvalidSmilesString
    p = Parser() if parser is None else parser
    try:
        p.parse(s)
    except InvalidSmilesString:
        return ("Invalid",)
    except BaseException as e:  # noqa: any other exception is the 'Crash' outcome
        return ("Crash", type(e).__name__, str(e)[:80])
    atoms = [(a.smiles_label, int(a.charge), a.n_hydrogens, a.atom_class, bool(a.has_stereochem), a.label)
             for a in p.atoms]
    bonds = [(int(b[0]), int(b[1]), int(b.order)) for b in p.bonds]
    return ("Ok", atoms, bonds, int(p.charge), int(p.mult))


def cstr(s):
    return '"' + s.replace('"', '""') + '"'


def printable(s):
    return all(32 <= ord(c) < 127 for c in s)


def lit_result(o):
    if o[0] == "Invalid":
        return "Invalid None"
    if o[0] == "Crash":
        return "Crash None"
    ats = "; ".join(
        f"A {cstr(l)} ({q})%Z {h if h is not None else 999999} {'None' if c is None else f'(Some ({c})%Z)'} "
        f"{'true' if st else 'false'}" for l, q, h, c, st, _ in o[1])
    bs = "; ".join(f"B {i} {j} {k}" for i, j, k in o[2])
    return f"(Ok [{ats}] [{bs}]) (Some (({o[3]})%Z, ({o[4]})%Z))"


def term_for(s, o):
    if printable(s):
        return f"check {cstr(s)} {lit_result(o)}"
    return f"check_codes [{'; '.join(str(ord(c)) for c in s)}] {lit_result(o)}"


PR = 2147483647


def _mix(acc, x):
    return (acc * 131 + x + 1) % PR


def _zcode(z):
    return 0 if z == 0 else (2 * z if z > 0 else 2 * (-z) + 1)


def digest(o):
    """Twin of Corr.digest."""
    if o[0] == "Invalid":
        return 1
    if o[0] == "Crash":
        return 2
    acc = 3
    for l, q, h, c, st, _ in o[1]:
        acc = _mix(acc, 7)
        for ch in l:
            acc = _mix(acc, ord(ch))
        acc = _mix(acc, _zcode(q) % PR)
        acc = _mix(acc, 0 if h is None else h + 1)
        acc = _mix(acc, 0 if c is None else _zcode(c) % PR + 1)
        acc = _mix(acc, 1 if st else 0)
    acc = _mix(acc, 11)
    for i, j, k in o[2]:
        acc = _mix(_mix(_mix(acc, i), j), k)
    return acc


# ================================================================ syntax trees (twin of Spec.v)
# chain  = ("Atom", satom, [rref], tail)      rref = (bsym, label, pct)
# tail   = ("End",) | ("Branch", bsym, chain, tail) | ("Next", bsym, chain)
# satom  = ("Org", sym) | ("Brk", sym, chir, h, c, cls)
#          h = None | "H" | int      c = None | ("s", pos) | ("n", pos, d) | ("d", pos)     cls = None | [digits]
BS = {"": "BImp", "-": "BSingle", "=": "BDouble", "#": "BTriple", "$": "BQuad", "/": "BUp", "\\": "BDown"}
BORD = {"": 1, "-": 1, "=": 2, "#": 3, "$": 4, "/": 1, "\\": 1}
OSYM = {"B": "OB", "C": "OC", "N": "ON", "O": "OO", "P": "OP", "S": "OS", "F": "OF", "Cl": "OCl", "Br": "OBr",
        "I": "OI", "b": "Ab", "c": "Ac", "n": "An", "o": "Ao", "s": "As", "p": "Ap"}
VAL = {"B": (3,), "C": (4,), "N": (3, 5), "O": (2,), "P": (3, 5), "S": (2, 4, 6), "F": (1,), "Cl": (1,), "Br": (1,),
       "I": (1,), "b": (2,), "c": (3,), "n": (2,), "o": (1,), "s": (1,), "p": (2,)}


def spell_satom(a):
    if a[0] == "Org":
        return a[1]
    _, sym, chir, h, c, cls = a
    out = "[" + sym + "@" * chir
    out += "" if h is None else ("H" if h == "H" else f"H{h}")
    if c is not None:
        sg = "+" if c[1] else "-"
        out += sg if c[0] == "s" else (sg + str(c[2]) if c[0] == "n" else sg + sg)
    if cls is not None:
        out += ":" + "".join(str(d) for d in cls)
    return out + "]"


def spell_label(l, pct):
    return f"%{l // 10}{l % 10}" if pct or l >= 10 else str(l)


def spell_chain(c):
    _, a, rs, t = c
    return spell_satom(a) + "".join(b + spell_label(l, p) for b, l, p in rs) + spell_tail(t)


def spell_tail(t):
    if t[0] == "End":
        return ""
    if t[0] == "Branch":
        return "(" + t[1] + spell_chain(t[2]) + ")" + spell_tail(t[3])
    return t[1] + spell_chain(t[2])


def coq_satom(a):
    if a[0] == "Org":
        return f"(Org {OSYM[a[1]]})"
    _, sym, chir, h, c, cls = a
    hh = "HNone" if h is None else ("HOne" if h == "H" else f"(HNum {h})")
    if c is None:
        cc = "CNone"
    elif c[0] == "s":
        cc = f"(CSign {'true' if c[1] else 'false'})"
    elif c[0] == "n":
        cc = f"(CNum {'true' if c[1] else 'false'} {c[2]})"
    else:
        cc = f"(CDouble {'true' if c[1] else 'false'})"
    kk = "None" if cls is None else "(Some [" + "; ".join(str(d) for d in cls) + "])"
    return f"(BK {cstr(sym)} {chir} {hh} {cc} {kk})"


def coq_chain(c):
    _, a, rs, t = c
    rr = "[" + "; ".join(f"R {BS[b]} {l} {'true' if p else 'false'}" for b, l, p in rs) + "]"
    return f"(Atom {coq_satom(a)} {rr} {coq_tail(t)})"


def coq_tail(t):
    if t[0] == "End":
        return "TEnd"
    if t[0] == "Branch":
        return f"(TBranch {BS[t[1]]} {coq_chain(t[2])} {coq_tail(t[3])})"
    return f"(TNext {BS[t[1]]} {coq_chain(t[2])})"


class IllFormed(Exception):
    def __init__(self, cls):
        self.cls = cls


def py_denote(chain):
    """Python twin of Spec.denote: -> (atoms [(label, charge, nH, class)], bonds {(i,j): order}) or raises
    IllFormed(class)."""
    atoms, bonds, opened = [], {}, {}

    def rref(i, r):
        b, l, _ = r
        if l not in opened:
            opened[l] = (i, b)
            return
        j, b0 = opened.pop(l)
        if j == i:
            raise IllFormed("self-ring")
        if (min(i, j), max(i, j)) in bonds:
            raise IllFormed("duplicate-ring-bond")
        if b0 == "":
            o = BORD[b]
        elif b == "":
            o = BORD[b0]
        elif BORD[b0] == BORD[b]:
            o = BORD[b]
        else:
            raise IllFormed("ring-bond-conflict")
        bonds[(j, i)] = o

    def den(c, parent):
        _, a, rs, t = c
        i = len(atoms)
        atoms.append(a)
        if parent is not None:
            bonds[(parent[0], i)] = BORD[parent[1]]
        for r in rs:
            rref(i, r)
        tail(t, i)

    def tail(t, i):
        while t[0] in ("Branch", "Ring"):
            if t[0] == "Ring":          # python-only extension: ring label written after a branch
                rref(i, t[1])
                t = t[2]
            else:
                den(t[2], (i, t[1]))
                t = t[3]
        if t[0] == "Next":
            den(t[2], (i, t[1]))

    den(chain, None)
    if opened:
        raise IllFormed("unclosed-ring")
    out = []
    for i, a in enumerate(atoms):
        sm = sum(o for (x, y), o in bonds.items() if i in (x, y))
        if a[0] == "Org":
            h = 0
            for v in VAL[a[1]]:
                if sm <= v:
                    h = v - sm
                    break
            out.append((a[1], 0, h, None))
        else:
            _, sym, chir, h, c, cls = a
            q = 0 if c is None else ((1 if c[1] else -1) * (1 if c[0] == "s" else (c[2] if c[0] == "n" else 2)))
            out.append((sym, q, 0 if h is None else (1 if h == "H" else h),
                        None if cls is None else int("".join(str(d) for d in cls))))
    return out, bonds


# ================================================================ strict recogniser (names malformed classes)
ELEMENTS = None
BR_RE = re.compile(r"^(@{0,2})(H[0-9]?)?(\+\+|--|[+-][0-9]?)?(:[0-9]+)?$")


def strict_parse(s):
    """Recogniser for the grammar of Spec.v.  -> (chain or None, set of recoverable deviation classes,
    fatal class or None).  Used only to give malformed inputs a class name."""
    dev = set()
    if s != "" and s.strip() == "":
        return None, dev, "blank"
    s = s.strip(" \t\n\r\x0b\x0c")
    if s == "":
        return None, dev, "empty"
    pos = 0
    n = len(s)

    class Fatal(Exception):
        pass

    def fatal(c):
        raise Fatal(c)

    def bond():
        nonlocal pos
        if pos < n and s[pos] in "-=#$/\\":
            pos += 1
            return s[pos - 1]
        return ""

    def atom():
        nonlocal pos
        if pos >= n:
            fatal("truncated")
        ch = s[pos]
        if ch == "[":
            end = s.find("]", pos)
            if end < 0:
                fatal("unterminated-bracket")
            body = s[pos + 1:end]
            pos = end + 1
            sym = None
            if body[:2] in ELEMENTS:
                sym, rest = body[:2], body[2:]
            elif body[:1] in ELEMENTS or body[:1] in ("b", "c", "n", "o", "s", "p"):
                sym, rest = body[:1], body[1:]
            if body[:2] in ("se", "as"):
                dev.add("aromatic-se-as")
                sym, rest = "s" if body[0] == "s" else "X", body[2:]
            if sym is None:
                fatal("bracket-unknown-symbol")
            m = BR_RE.match(rest)
            if not m:
                dev.add("bracket-junk")
                return ("Brk", sym, 0, None, None, None)
            chir = len(m.group(1))
            h = None if not m.group(2) else ("H" if m.group(2) == "H" else int(m.group(2)[1]))
            g = m.group(3)
            c = None if not g else (("d", g[0] == "+") if g in ("++", "--") else
                                    (("s", g[0] == "+") if len(g) == 1 else ("n", g[0] == "+", int(g[1]))))
            cls = None if not m.group(4) else [int(d) for d in m.group(4)[1:]]
            return ("Brk", sym, chir, h, c, cls)
        if s[pos:pos + 2] in ("Cl", "Br"):
            pos += 2
            return ("Org", s[pos - 2:pos])
        if ch in OSYM:
            pos += 1
            return ("Org", ch)
        fatal("unknown-character" if ch not in "()0123456789%-=#$/\\]" else "misplaced-" + {
            "(": "open-paren", ")": "close-paren", "%": "ring-label", "]": "close-bracket"}.get(
            ch, "ring-label" if ch.isdigit() else "bond"))

    def rrefs():
        nonlocal pos
        rs = []
        while True:
            save = pos
            b = bond()
            if pos < n and s[pos] in "0123456789":
                rs.append((b, int(s[pos]), False))
                pos += 1
            elif pos < n and s[pos] == "%":
                two = s[pos + 1:pos + 3]
                if len(two) == 2 and two.isdigit() and two.isascii():
                    rs.append((b, int(two), True))
                    pos += 3
                else:
                    fatal("percent-label-truncated" if len(two) < 2 else "percent-label-nondigit")
            else:
                pos = save
                return rs

    def chain():
        a = atom()
        rs = rrefs()
        return ("Atom", a, rs, tail(False))

    def tail(after_branch):
        nonlocal pos
        if pos < n and s[pos] == "(":
            pos += 1
            save = pos
            b = bond()
            if pos < n and s[pos] == ")":
                fatal("empty-branch")
            if pos < n and s[pos] in "0123456789%":
                fatal("ring-label-at-branch-start")
            c = chain()
            if pos >= n or s[pos] != ")":
                fatal("unclosed-branch" if pos >= n else "misplaced-character-in-branch")
            pos += 1
            t = tail(True)
            return ("Branch", b, c, t)
        if pos >= n or s[pos] == ")":
            return ("End",)
        save = pos
        b = bond()
        if pos >= n or s[pos] in "()-=#$/\\":
            fatal("dangling-bond")
        if s[pos] in "0123456789%":
            # a ring label after a branch: not OpenSMILES, but read leniently by RDKit as well
            pos = save
            if not after_branch:
                fatal("internal")
            dev.add("ring-label-after-branch")
            t = ("End",)
            rs = rrefs()
            rest = tail(True)
            for r in reversed(rs):
                rest = ("Ring", r, rest)
            return rest
        return ("Next", b, chain())

    try:
        c = chain()
        if pos < n:
            fatal("unbalanced-close-paren" if s[pos] == ")" else "trailing-characters")
        return c, dev, None
    except Fatal as e:
        return None, dev, e.args[0]


def classes_of(s):
    """All malformed classes the strict recogniser + reference semantics find in s (empty = well formed)."""
    c, dev, fatal = strict_parse(s)
    out = set(dev)
    if fatal is not None:
        if fatal != "empty":
            out.add(fatal)
        return out, None
    try:
        py_denote(c)
    except IllFormed as e:
        out.add(e.cls)
        return out, None
    return out, (c if not out else None)


# ================================================================ RDKit side
def rdkit_read(s, sanitize):
    from rdkit import Chem
    # RDKit refuses leading zeros in ring labels and atom classes; "%0d" and "d", ":003" and ":3" are the same
    # label / class, so the string is normalised before RDKit reads it (meaning-preserving rewrite)
    s = re.sub(r"%0([0-9])", r"\1", s)
    s = re.sub(r":0+([0-9])", r":\1", s)
    ps = Chem.SmilesParserParams()
    ps.removeHs = False
    ps.sanitize = False
    m = Chem.MolFromSmiles(s, ps)
    if m is None:
        return None
    if sanitize:
        try:
            Chem.SanitizeMol(m)
        except Exception:  # noqa
            return "unsanitizable"
    else:
        try:
            m.UpdatePropertyCache(strict=False)
        except Exception:  # noqa
            pass
    return m


def rd_view(m, with_h):
    from rdkit import Chem
    order = {Chem.BondType.SINGLE: 1, Chem.BondType.AROMATIC: 1, Chem.BondType.DOUBLE: 2, Chem.BondType.TRIPLE: 3,
             Chem.BondType.QUADRUPLE: 4}
    atoms = [(a.GetSymbol(), a.GetFormalCharge(), a.GetTotalNumHs() if with_h else None) for a in m.GetAtoms()]
    bonds = {}
    for b in m.GetBonds():
        i, j = b.GetBeginAtomIdx(), b.GetEndAtomIdx()
        bonds[(min(i, j), max(i, j))] = order.get(b.GetBondType(), 99)
    return atoms, bonds


def impl_view(o, with_h):
    atoms = [(lab, q, h if with_h else None) for _, q, h, _, _, lab in o[1]]
    bonds = {(min(i, j), max(i, j)): k for i, j, k in o[2]}
    return atoms, bonds


def graph_of(atoms, bonds):
    g = nx.Graph()
    for i, a in enumerate(atoms):
        g.add_node(i, a=tuple(a))
    for (i, j), o in bonds.items():
        g.add_edge(i, j, o=o)
    return g


def isomorphic(g1, g2):
    return nx.is_isomorphic(g1, g2, node_match=lambda x, y: x["a"] == y["a"], edge_match=lambda x, y: x["o"] == y["o"])


# ================================================================ molecule generator
ORG_W = [("C", 50), ("N", 12), ("O", 12), ("S", 4), ("P", 2), ("F", 3), ("Cl", 3), ("Br", 2), ("I", 1), ("B", 1)]
MAXV = {"B": 3, "C": 4, "N": 3, "O": 2, "P": 5, "S": 6, "F": 1, "Cl": 1, "Br": 1, "I": 1}
# aromatic templates: (atoms, ring bonds); atom = (symbol, bracket H or None)
TEMPLATES = {
    "benzene": (["c"] * 6, [(0, 1), (1, 2), (2, 3), (3, 4), (4, 5), (5, 0)]),
    "pyridine": (["n", "c", "c", "c", "c", "c"], [(0, 1), (1, 2), (2, 3), (3, 4), (4, 5), (5, 0)]),
    "pyrimidine": (["n", "c", "n", "c", "c", "c"], [(0, 1), (1, 2), (2, 3), (3, 4), (4, 5), (5, 0)]),
    "pyrrole": (["nH", "c", "c", "c", "c"], [(0, 1), (1, 2), (2, 3), (3, 4), (4, 0)]),
    "furan": (["o", "c", "c", "c", "c"], [(0, 1), (1, 2), (2, 3), (3, 4), (4, 0)]),
    "thiophene": (["s", "c", "c", "c", "c"], [(0, 1), (1, 2), (2, 3), (3, 4), (4, 0)]),
    "imidazole": (["nH", "c", "n", "c", "c"], [(0, 1), (1, 2), (2, 3), (3, 4), (4, 0)]),
    "naphthalene": (["c"] * 10, [(0, 1), (1, 2), (2, 3), (3, 4), (4, 5), (5, 6), (6, 7), (7, 8), (8, 9), (9, 0), (3, 8)]),
    "indole": (["nH", "c", "c", "c", "c", "c", "c", "c", "c"],
               [(0, 1), (1, 2), (2, 3), (3, 4), (4, 5), (5, 6), (6, 7), (7, 8), (8, 0), (3, 8)]),
    "pyridinium": (["nH+", "c", "c", "c", "c", "c"], [(0, 1), (1, 2), (2, 3), (3, 4), (4, 5), (5, 0)]),
}
METALS = [("Si", 4), ("Se", 2), ("Li", 1), ("Mg", 2), ("Zn", 2), ("Sn", 4), ("Al", 3), ("Cu", 1), ("Ge", 4), ("As", 3)]


class Mol:
    def __init__(self):
        self.atoms = []      # dict(sym, brk(bool), h(explicit int or None), q, cls, chir)
        self.bonds = {}      # (i,j) i<j -> order
        self.dirs = {}       # (i,j) -> "/" or "\\"

    def add(self, sym, **kw):
        a = dict(sym=sym, brk=False, h=None, q=0, cls=None, chir=0, cap=0)
        a.update(kw)
        self.atoms.append(a)
        return len(self.atoms) - 1

    def bond(self, i, j, o=1):
        self.bonds[(min(i, j), max(i, j))] = o

    def sum_orders(self, i):
        return sum(o for (a, b), o in self.bonds.items() if i in (a, b))

    def nbrs(self, i):
        return [b if a == i else a for (a, b) in self.bonds if i in (a, b)]


def wchoice(rng, pairs):
    tot = sum(w for _, w in pairs)
    x = rng.uniform(0, tot)
    for v, w in pairs:
        x -= w
        if x <= 0:
            return v
    return pairs[-1][0]


IONS = [("O", -2), ("S", -2), ("Fe", 3), ("Fe", 2), ("Cu", 2), ("Zn", 2), ("Na", 1), ("Cl", -1), ("Ca", 2), ("Al", 3),
        ("Mg", 2), ("Br", -1), ("K", 1), ("Mn", 2), ("Ti", 4)]


def gen_molecule(rng, size):
    m = Mol()
    if size == 1 and rng.random() < 0.5:
        sym, q = rng.choice(IONS)
        m.add(sym, brk=True, h=0, q=q, cap=0, cform=rng.choice("dn"))
        return m
    m.add(wchoice(rng, ORG_W[:4]))
    # tree growth
    while len(m.atoms) < size:
        cands = [i for i, a in enumerate(m.atoms) if not a["brk"] and a["sym"] in MAXV and
                 MAXV[a["sym"]] - m.sum_orders(i) >= 1]
        if not cands:
            break
        p = rng.choice(cands)
        r = rng.random()
        if r < 0.10 and len(m.atoms) + 5 <= size + 4:
            # aromatic substituent
            name = rng.choice(list(TEMPLATES))
            syms, rb = TEMPLATES[name]
            base = len(m.atoms)
            for sy in syms:
                if sy == "nH":
                    m.add("n", brk=True, h=1)
                elif sy == "nH+":
                    m.add("n", brk=True, h=1, q=1)
                else:
                    m.add(sy)
            for a, b in rb:
                m.bond(base + a, base + b, 1)
            sites = [base + k for k, sy in enumerate(syms) if sy == "c" and m.sum_orders(base + k) == 2]
            m.bond(p, rng.choice(sites), 1)
            continue
        if r < 0.16:
            sym, cap = rng.choice(METALS)
            q = rng.choice([0, 0, 0, 1, 2, -1, -2]) if cap >= 2 else 0
            m.bond(p, m.add(sym, brk=True, h=0, cap=cap, q=q, cform=rng.choice("dn")), 1)
            continue
        sym = wchoice(rng, ORG_W)
        free_p = MAXV[m.atoms[p]["sym"]] - m.sum_orders(p)
        o = 1
        x = rng.random()
        if x < 0.15 and free_p >= 2 and MAXV[sym] >= 2:
            o = 2
        elif x < 0.19 and free_p >= 3 and MAXV[sym] >= 3:
            o = 3
        m.bond(p, m.add(sym), o)
    # ring closures (fused / spiro / bridged rings arise from several closures)
    nrings = rng.choice([0, 0, 1, 1, 2, 3]) if len(m.atoms) >= 3 else 0
    for _ in range(nrings):
        cands = [i for i, a in enumerate(m.atoms) if not a["brk"] and a["sym"] in MAXV and a["sym"].isupper() and
                 MAXV[a["sym"]] - m.sum_orders(i) >= 1]
        cands += [i for i, a in enumerate(m.atoms) if a["brk"] and a["cap"] - m.sum_orders(i) >= 1]
        rng.shuffle(cands)
        done = False
        for i in cands:
            for j in cands:
                if i < j and (i, j) not in m.bonds and not done:
                    o = 2 if (rng.random() < 0.15 and not m.atoms[i]["brk"] and not m.atoms[j]["brk"] and
                              MAXV[m.atoms[i]["sym"]] - m.sum_orders(i) >= 2 and
                              MAXV[m.atoms[j]["sym"]] - m.sum_orders(j) >= 2) else 1
                    m.bond(i, j, o)
                    done = True
    # charged / bracket forms
    for i, a in enumerate(m.atoms):
        if a["brk"] or a["sym"] not in MAXV or not a["sym"][0].isupper():
            continue
        sm = m.sum_orders(i)
        r = rng.random()
        sym = a["sym"]
        if r < 0.06:
            form = {"N": (1, 4), "O": (1, 3), "S": (1, 3), "P": (1, 4), "B": (-1, 4), "C": (-1, 3)}.get(sym)
            if sym == "O" and sm == 1 and rng.random() < 0.6:
                form = (-1, 1)
            if form and sm <= form[1]:
                a.update(brk=True, q=form[0], h=form[1] - sm)
        elif r < 0.16:
            h = 0
            for v in VAL[sym]:
                if sm <= v:
                    h = v - sm
                    break
            a.update(brk=True, h=h)
        if a["brk"]:
            if rng.random() < 0.3:
                a["cls"] = rng.choice([[1], [7], [1, 2], [0, 0, 3], [9, 9], [4, 0]])
            if sym == "C" and len(m.nbrs(i)) + a["h"] == 4 and len(m.nbrs(i)) >= 3 and rng.random() < 0.7:
                a["chir"] = rng.choice([1, 2])
    # cis/trans marks around non-aromatic double bonds
    for (i, j), o in list(m.bonds.items()):
        if o != 2 or rng.random() > 0.6:
            continue
        ni = [x for x in m.nbrs(i) if x != j and m.bonds[(min(i, x), max(i, x))] == 1]
        nj = [x for x in m.nbrs(j) if x != i and m.bonds[(min(j, x), max(j, x))] == 1]
        if ni and nj and m.atoms[i]["sym"][0].isupper() and m.atoms[j]["sym"][0].isupper():
            x, y = rng.choice(ni), rng.choice(nj)
            m.dirs[(min(i, x), max(i, x))] = rng.choice("/\\")
            m.dirs[(min(j, y), max(j, y))] = rng.choice("/\\")
    return m


def mol_truth(m):
    """The generator's own view of the molecule: atoms (element, charge, H) and bonds."""
    atoms = []
    for i, a in enumerate(m.atoms):
        if a["brk"]:
            h = a["h"]
        else:
            sm, h = m.sum_orders(i), 0
            for v in VAL[a["sym"]]:
                if sm <= v:
                    h = v - sm
                    break
        atoms.append((a["sym"].capitalize(), a["q"], h))
    return atoms, dict(m.bonds)


def satom_of(a):
    if not a["brk"]:
        return ("Org", a["sym"])
    h = None if a["h"] == 0 else ("H" if a["h"] == 1 else a["h"])
    q = a["q"]
    c = None if q == 0 else (("s", q > 0) if abs(q) == 1 else
                             (("d", q > 0) if abs(q) == 2 and a.get("cform") == "d" else ("n", q > 0, abs(q))))
    return ("Brk", a["sym"], a["chir"], h, c, a["cls"])


def spell_random(m, rng, style):
    """Random DFS spelling of the molecule as a chain.  style: dict(pct=prob of %nn for small labels,
    big=prob of drawing a two-digit label, reuse=bool (smallest free label) , dash=prob of explicit '-',
    allbranch=prob that the last child is written as a branch too)."""
    n = len(m.atoms)
    adj = {i: m.nbrs(i) for i in range(n)}
    for i in adj:
        rng.shuffle(adj[i])
    root = rng.randrange(n)
    order, parent, children, closures = [], {root: None}, {i: [] for i in range(n)}, []
    seen = set()

    def dfs(u):
        seen.add(u)
        order.append(u)
        for v in adj[u]:
            if v == parent[u]:
                continue
            if v not in seen:
                parent[v] = u
                children[u].append(v)
                dfs(v)
            elif (v, u) not in closures and (u, v) not in closures and order.index(v) < order.index(u):
                closures.append((v, u))     # v is written first: opener

    sys.setrecursionlimit(10000)
    dfs(root)
    opens = {i: [] for i in range(n)}
    closes = {i: [] for i in range(n)}
    for k, (a, b) in enumerate(closures):
        opens[a].append(k)
        closes[b].append(k)
    label_of, in_use = {}, set()
    ring_sym = {}

    def pick_label():
        if style["reuse"]:
            l = 1
            while l in in_use:
                l += 1
            return l
        pool = [l for l in (range(0, 100) if rng.random() < style["big"] else range(0, 10)) if l not in in_use]
        if not pool:
            pool = [l for l in range(100) if l not in in_use]
        return rng.choice(pool)

    def bsym_for(i, j, explicit_ok=True):
        key = (min(i, j), max(i, j))
        o = m.bonds[key]
        if o > 1:
            return {2: "=", 3: "#", 4: "$"}[o]
        if key in m.dirs:
            return m.dirs[key]
        both_aromatic = m.atoms[i]["sym"][0].islower() and m.atoms[j]["sym"][0].islower()
        # an explicit "-" between two aromatic atoms means "single, not aromatic" to RDKit: a different molecule
        return "-" if explicit_ok and not both_aromatic and rng.random() < style["dash"] else ""

    def build(u):
        events = [("c", k) for k in closes[u]] + [("o", k) for k in opens[u]]
        rng.shuffle(events)
        rs = []
        for kind, k in events:
            a, b = closures[k]
            if kind == "o":
                l = pick_label()
                in_use.add(l)
                label_of[k] = l
                full = bsym_for(a, b, explicit_ok=False)
                where = rng.choice(["open", "close", "both"]) if full else "none"
                ring_sym[k] = full if where in ("close", "both") else ""
                rs.append((full if where in ("open", "both") else "", l, rng.random() < style["pct"]))
            else:
                l = label_of[k]
                in_use.discard(l)
                rs.append((ring_sym[k], l, rng.random() < style["pct"]))
        kids = children[u]
        t = ("End",)
        if kids:
            last = kids[-1]
            if rng.random() < style["allbranch"]:
                t = ("Branch", bsym_for(u, last), build_later(last), ("End",))
            else:
                t = ("Next", bsym_for(u, last), build_later(last))
            for v in reversed(kids[:-1]):
                t = ("Branch", bsym_for(u, v), build_later(v), t)
        return ("Atom", satom_of(m.atoms[u]), rs, t)

    # labels must be allocated in string order: build children lazily, then force in order
    class Lazy:
        def __init__(self, v):
            self.v = v

    def build_later(v):
        return Lazy(v)

    def force(c):
        tag, a, rs, t = c
        return (tag, a, rs, force_tail(t))

    def force_tail(t):
        if t[0] == "End":
            return t
        if t[0] == "Branch":
            c = force(build(t[2].v))
            return ("Branch", t[1], c, force_tail(t[3]))
        return ("Next", t[1], force(build(t[2].v)))

    chain = force(build(root))
    return chain, order


STYLES = [
    dict(pct=0.0, big=0.0, reuse=True, dash=0.0, allbranch=0.0),
    dict(pct=0.3, big=0.3, reuse=False, dash=0.1, allbranch=0.2),
    dict(pct=1.0, big=1.0, reuse=False, dash=0.0, allbranch=0.0),
    dict(pct=0.5, big=0.1, reuse=True, dash=0.3, allbranch=0.5),
]


# ================================================================ streams
def valid_stream(ctx, n_mols, max_size):
    """-> list of cases dict(s, chain, truth, mol_id)"""
    cases = []
    for k in range(n_mols):
        size = ctx.rng.randint(1, max_size)
        m = gen_molecule(ctx.rng, size)
        truth = mol_truth(m)
        nsp = 2 if ctx.quick else 3
        seen = set()
        for t in range(nsp):
            chain, order = spell_random(m, ctx.rng, STYLES[(k + t) % len(STYLES)] if t else ctx.rng.choice(STYLES))
            s = spell_chain(chain)
            if s in seen:
                continue
            seen.add(s)
            cases.append(dict(s=s, chain=chain, truth=truth, order=order, mol=k, natoms=len(m.atoms)))
    return cases


ALPHA = list("CCCCNOcnos()()1122%=#-+[]H@/\\:FlBr3 0$SPIb9.*ae_\t")


def mutate(rng, s):
    s = list(s)
    for _ in range(rng.choice([1, 1, 1, 2])):
        r = rng.random()
        pos = rng.randrange(len(s) + 1)
        if r < 0.35 and s:
            s.pop(min(pos, len(s) - 1))
        elif r < 0.7:
            s.insert(pos, rng.choice(ALPHA))
        elif r < 0.9 and s:
            s[min(pos, len(s) - 1)] = rng.choice(ALPHA)
        elif s:
            s = s[:pos]
    return "".join(s)


FIXED_MALFORMED = [
    "", " ", "\t", " C ", "1CC1", "C1", "C(", "C)", "()", "(C)C", "C((C))C", "C=", "=C", "C==C", "C=(C)C", "C(=)C", "[", "[C",
    "C]", "[]", "[C(]", "[X]", "[x]", "[1]", "[-]C", "[h]", "C.C", "C*", "C:C", "C~C", "C?", "C11", "C1C1", "C12CC12",
    "C1(C)1", "C=1CC#1", "C-1CC=1", "C%+1CC1", "C% 1CC1", "C%-1CC%-1", "C%1", "C%", "C%1xC", "C%12CC%1", "C%00CC%00",
    "C%01CC1", "[N4]", "[H4]", "[NH#+]", "[C+-]", "[CH3H2]", "[C:1:2]", "[C:]", "[C:a]", "[C:+1]", "[C:1_0]", "[Fe+++]",
    "[C+10]", "[CH10]", "[se]1cccc1", "[as]1cccc1", "c1cc[se]c1", "[13CH4]", "[C@TH1H]", "C(C)1CC1", "C(CC)1CC1", "Clr",
    "Brl", "Cr", "Bl", "C l", "C²", "C٣CC٣", "[C+²]", "C%١٢CC%12", " C", "C ", "[C@@@H](F)(Cl)Br",
    "C/=C", "C=/C", "C/", "/C", "C/(C)", "C1CC1(", "C(C)(", "C)(", ")(", "C(C)(C)", "C(C)", "[HH]", "[H]", "[H+]",
    "C1CC%1", "C=1CCCC%1", "C0CC%0", "C1CC%", "C1CC%1C", "C1%1", "C12CC1%2", "[CH²]", "\x1cC", "C\x1f", "\x0bC\x0c", "C1CC(1)", "C(1)CC1", "C(=1)CC1", "C(/1)CC1", "C1(C)CC1", "C(C)=1CC1",
    "C(C)1(F)CC1", "C(C)1(F)(Cl)CC1", "N(C)1(=O)CC1", "[C: 7]", "[C:-3]", "C%1 CC%1 ", "C%٠١CC1",
    # grammatical strings that exercise every row of the implicit-valence table beyond its first entry
    "N(C)(C)(C)C", "N(C)(C)(C)(C)C", "N(=O)(=O)C", "CS(C)(C)C", "CS(C)(C)(C)C", "S(C)(C)(C)(C)(C)C", "CP(C)(C)C", "P(C)(C)(C)(C)C",
    "B(C)(C)C", "B(C)(C)(C)C", "O(C)(C)C", "F(C)C", "Cl(C)C", "Br(C)C", "I(C)C", "c(C)(C)(C)C", "n(C)(C)C", "o(C)C", "s(C)C",
    "p(C)(C)C", "b(C)(C)C", "C(C)(C)(C)(C)C", "B", "C", "N", "O", "P", "S", "F", "Cl", "Br", "I", "b", "c", "n", "o", "s", "p",
]


def malformed_stream(ctx, valid_cases, n):
    out = list(FIXED_MALFORMED)
    seeds = [c["s"] for c in valid_cases] or ["C1CC1"]
    for _ in range(n):
        r = ctx.rng.random()
        if r < 0.6:
            out.append(mutate(ctx.rng, ctx.rng.choice(seeds)))
        else:
            out.append("".join(ctx.rng.choice(ALPHA) for _ in range(ctx.rng.randint(1, 9))))
    return out


# ================================================================ oracles on the implementation
class Fails:
    """Oracle failures grouped by finding key; each key is reported once, with its shortest example."""

    def __init__(self):
        self.by_key = {}

    def add(self, key, what, s, o):
        self.by_key.setdefault(key, []).append((len(s), s, what, repr(o)[:600]))

    def __len__(self):
        return sum(len(v) for v in self.by_key.values())

    def report(self, ctx):
        for key in sorted(self.by_key):
            ex = sorted(self.by_key[key])
            _, s, what, obs = ex[0]
            ctx.finding(key, what + (f"  [{len(ex)} inputs of this class in this run]" if len(ex) > 1 else ""),
                        {"smiles": s, "observed": obs, "more": [e[1] for e in ex[1:6]]})
        self.by_key = {}


def check_valid_case(ctx, case, o, fails):
    """Implementation vs the generator's molecule, vs the Python reference reader and vs RDKit."""
    s = case["s"]

    def fail(key, what):
        fails.add(key, what, s, o)

    if o[0] != "Ok":
        fail("Parser.parse|grammatical-rejected" if o[0] == "Invalid" else "Parser.parse|foreign-exception",
             f"the generated valid SMILES {s!r} gave {o[0]} {o[1:] if o[0] == 'Crash' else ''}")
        return
    # (a) python twin of the reference reader: exact, same atom numbering
    ref_atoms, ref_bonds = py_denote(case["chain"])
    got_atoms = [(l, q, h, c) for l, q, h, c, _, _ in o[1]]
    got_bonds = {(min(i, j), max(i, j)): k for i, j, k in o[2]}
    if got_atoms != ref_atoms or got_bonds != ref_bonds or len(o[2]) != len(ref_bonds):
        fail("Parser.parse|differs-from-reference-reader",
             f"{s!r}: parsed atoms/bonds {got_atoms} {sorted(got_bonds.items())} but the string denotes "
             f"{ref_atoms} {sorted(ref_bonds.items())}")
    if o[3] != sum(a[1] for a in ref_atoms):
        fail("Parser.charge|total", f"{s!r}: Parser.charge = {o[3]}, atoms sum to {sum(a[1] for a in ref_atoms)}")
    # (b) the generator's graph, up to isomorphism (different atom order)
    ta, tb = case["truth"]
    ia, ib = impl_view(o, True)
    if not isomorphic(graph_of(ta, tb), graph_of(ia, ib)):
        fail("Parser.parse|respelling-not-isomorphic",
             f"{s!r}: parsed molecule is not isomorphic to the molecule it was spelled from")
    # (c) RDKit
    mr = rdkit_read(s, sanitize=False)
    if mr is None:
        ctx.hist("valid", "rdkit-rejects-generated")
        fail("harness|rdkit-rejects-valid", f"RDKit rejects the generated SMILES {s!r}")
        return
    ra, rb = rd_view(mr, False)
    ia0, _ = impl_view(o, False)
    if ra != ia0 or rb != ib:
        fail("Parser.parse|differs-from-rdkit",
             f"{s!r}: elements/charges/bonds differ from RDKit: parser {ia0} {sorted(ib.items())}; RDKit {ra} {sorted(rb.items())}")
    ms = rdkit_read(s, sanitize=True)
    if ms == "unsanitizable" or ms is None:
        ctx.hist("valid", "rdkit-unsanitizable")
    else:
        rah, _ = rd_view(ms, True)
        if [a[2] for a in rah] != [a[2] for a in ia]:
            fail("Parser.parse|hydrogens-differ-from-rdkit",
                 f"{s!r}: H counts {[a[2] for a in ia]} vs RDKit {[a[2] for a in rah]}")
        from rdkit import Chem
        nel = sum(a.GetAtomicNum() + a.GetTotalNumHs() for a in ms.GetAtoms()) - Chem.GetFormalCharge(ms)
        if Chem.GetFormalCharge(ms) != o[3] or (nel % 2) + 1 != o[4]:
            fail("Parser.charge|rdkit", f"{s!r}: charge/mult {o[3]}/{o[4]} vs RDKit charge {Chem.GetFormalCharge(ms)}, "
                                        f"{nel} electrons")
        case["canon"] = Chem.MolToSmiles(ms, isomericSmiles=False)


def check_malformed_case(ctx, s, o, fails):
    """RDKit rejects => must be Invalid; both accept => same molecule; never a foreign exception."""
    def fail(key, what):
        fails.add(key, what, s, o)

    # non-ASCII characters are never part of the grammar: classify the string with each of them replaced by "?"
    s_cls = s if s.isascii() else "".join(c if ord(c) < 128 else "?" for c in s)
    if o[0] == "Crash":
        cls, _ = classes_of(s_cls)
        fail("Parser.parse|foreign-exception:" + "+".join(sorted(cls) or ["well-formed"]) + ("" if s.isascii() else ":non-ascii"),
             f"{s!r} raised {o[1]}: {o[2]} instead of InvalidSmilesString")
        return "crash"
    cls, chain = classes_of(s_cls)
    if not s.isascii():
        chain = None
        if o[0] == "Ok" and not cls:
            fail("Parser.parse|non-ascii-accepted", f"{s!r} (non-ASCII) was accepted: {o[1]}")
            return "non-ascii"
    if o[0] == "Invalid":
        if chain is not None:
            fail("Parser.parse|grammatical-rejected", f"{s!r} is in the supported grammar but was rejected")
        return "rejected"
    # accepted
    if chain is not None or (not cls and s.strip() == ""):
        if chain is not None:
            ref_atoms, ref_bonds = py_denote(chain)
            got_atoms = [(l, q, h, c) for l, q, h, c, _, _ in o[1]]
            got_bonds = {(min(i, j), max(i, j)): k for i, j, k in o[2]}
            if got_atoms != ref_atoms or got_bonds != ref_bonds:
                fail("Parser.parse|differs-from-reference-reader",
                     f"{s!r}: parsed {got_atoms} {sorted(got_bonds.items())}, denotes {ref_atoms} {sorted(ref_bonds.items())}")
        return "accepted-grammatical"
    mr = rdkit_read(s, sanitize=False) if s.isascii() else None
    names = sorted(cls - LENIENT) or sorted(cls)
    if mr is None:
        for c in names:
            fail(KNOWN_CLASS_KEYS.get(c, f"Parser.parse|{c}-accepted"),
                 f"{s!r} (malformed: {c}) is rejected by the reference reader but was parsed as {o[1]} {o[2]}")
        return "accepted-malformed"
    ra, rb = rd_view(mr, False)
    ia, ib = impl_view(o, False)
    if ra != ia or rb != ib:
        for c in names:
            key = KNOWN_CLASS_KEYS.get(c)
            if key is None or key.endswith("-accepted"):
                key = f"Parser.parse|{c}-different-molecule" if key is None else key
            fail(key, f"{s!r} (outside the grammar: {c}) silently gives a different molecule than the reference reader: "
                      f"parser {ia} {sorted(ib.items())}; RDKit {ra} {sorted(rb.items())}")
        return "accepted-differs"
    return "accepted-lenient-same"


# ================================================================ run
def table_check_terms():
    """runtime tables == generated tables (validates the translator)"""
    import autode.smiles.base as B
    from autode.atoms import elements

    def ls(xs):
        return "[" + "; ".join(f"list_ascii_of_string {cstr(x)}" for x in xs) + "]"
    return [
        f"list_eqb str_eqb C01_Gen.organic_symbols {ls(B.organic_symbols)}",
        f"list_eqb str_eqb C01_Gen.aromatic_symbols {ls(B.aromatic_symbols)}",
        f"str_eqb C01_Gen.bond_order_symbols (list_ascii_of_string {cstr(''.join(B.bond_order_symbols))})",
        f"list_eqb str_eqb C01_Gen.elements {ls(elements)}",
    ]


def enum_terms(ctx, alpha, total_len, prefix_len, fails):
    """Bounded-exhaustive: every string of length total_len over alpha, sharded by prefix.  Every accepted or
    crashing string also goes through the implementation-side oracles (RDKit rejects => must be Invalid ...)."""
    terms, meta = [], []
    for pre in itertools.product(alpha, repeat=prefix_len):
        pre = "".join(pre)
        exp = []
        for suf in itertools.product(alpha, repeat=total_len - prefix_len):
            s = pre + "".join(suf)
            o = observe(s)
            exp.append(digest(o))
            ctx.hist("enum", o[0])
            if o[0] != "Invalid":
                ctx.hist("enum", check_malformed_case(ctx, s, o, fails))
        ctx.cov["streams"].setdefault("enum", {"evaluations": 0, "distinct_nontrivial": 0})
        ctx.cov["streams"]["enum"]["evaluations"] += len(exp)
        ctx.cov["streams"]["enum"]["distinct_nontrivial"] += len(exp)
        ctx.cov["evaluations"] += len(exp)
        ctx.cov["distinct_nontrivial"] += len(exp)
        terms.append(f"check_enum {cstr(alpha)} {cstr(pre)} {total_len - prefix_len} [" +
                     "; ".join(f"{d}%N" for d in exp) + "]")
        meta.append((alpha, pre, total_len - prefix_len))
    return terms, meta


REUSE_POOL = [
    # accepted
    "C", "CC(C)C", "C1CC1", "C%12CC%12", "[NH4+]", "c1ccccc1", "C(=O)O", "F/C=C/F", "[C@H](F)(Cl)Br", "", "C11",
    # rejected while something is still open / half read
    "CC(C", "C(C[", "CC(=O", "C(C(C", "C1CC", "C%12CC", "C(C1", "[CH4", "C(", "C=", "C(C)=", "CC)C", "C)", "1CC1", "C?C",
    "C.C", "[X]", "[C:a]", "C%1", "C1CC%1", "C(C))", "()", "C(Cl", "C/", "(",
]


def reuse_stream(ctx, fails, extra):
    """Parser.parse must be a function of the string alone: ONE Parser object parses sequences of strings
    (accepted, rejected in every class - inside a branch, inside a bracket, with an open ring ... - accepted
    again) and every outcome must equal the outcome of a fresh Parser on that string."""
    from autode.smiles.parser import Parser
    fresh = {}

    def ref(s):
        if s not in fresh:
            fresh[s] = observe(s)
        return fresh[s]

    def run_seq(seq):
        p = Parser()
        for k, s in enumerate(seq):
            got = observe(s, parser=p)
            ctx.count("reuse", tuple(seq[:k + 1]), nontrivial=k > 0)
            if got != ref(s):
                hist = list(seq[:k])
                fails.add("Parser.parse|state-leaks-between-parses",
                          f"after parsing {hist!r} on the same Parser object, parse({s!r}) gives {got[0]} "
                          f"{got[1:3] if got[0] != 'Invalid' else ''} but a fresh Parser gives {ref(s)[0]} "
                          f"{ref(s)[1:3] if ref(s)[0] != 'Invalid' else ''}", s, {"sequence": list(seq[:k + 1]), "got": got})
                return False
        return True

    pool = REUSE_POOL
    for a in pool:                                   # all ordered pairs, then the first string again
        for b in pool:
            run_seq([a, b, a])
    small = ["C(C)C", "CC(C", "C(C[", "C1CC", "CC)C", "C1CC1", "[CH4", "C)"]
    for seq in itertools.product(small, repeat=3):    # all ordered triples of a smaller pool
        run_seq(list(seq))
    # long random histories over the generated / mutated strings of this run
    for _ in range(6 if ctx.quick else 60):
        run_seq([ctx.rng.choice(extra) for _ in range(60)] if extra else [])
    return sorted(fresh)


def pinpoint_enum(ctx, alpha, pre, n):
    """A shard of the exhaustive enumeration disagrees: find the strings."""
    strings = [pre + "".join(suf) for suf in itertools.product(alpha, repeat=n)]
    terms = [term_for(s, observe(s)) for s in strings]
    bad, err = ctx.coq_bad_indices(PRE, terms, per_file=400, name="c01pin", timeout=600)
    return [strings[i] for i in bad]


def run(ctx):
    global ELEMENTS
    sys.path.insert(0, REPO)
    from rdkit import RDLogger
    RDLogger.DisableLog("rdApp.*")
    import logging
    logging.getLogger("autode").setLevel(logging.CRITICAL)
    from autode.atoms import elements
    ELEMENTS = set(elements)

    # 1. regenerate the tables from the source
    rc, out = sh(["python3", f"{VERIF}/tr/translate_c01.py"], timeout=120)
    ctx.log("translator:", out.strip()[:300])
    translated = rc == 0
    ctx.cov["translator"] = {"ok": translated, "output": out.strip()[:600]}
    # 2. proofs
    info = {"hygiene": [], "log_tail": out, "build_ok": False}
    proofs_ok = False
    if translated:
        proofs_ok, info = ctx.proofs(SLICE, "C01/Props.v", "AV.C01.Props", extra_targets=["C01/Corr.vo"])
        ctx.log("proofs:", "ok" if proofs_ok else "BROKEN")
        ctx.cov["print_assumptions"] = info.get("assumptions", {})
    else:
        ctx.cov["obligations"] += len(ctx.theorems_in("C01/Props.v"))
        ctx.cov["checker_cmd"] = "translator failed closed; proofs not attempted"
    model_ok = proofs_ok
    if not proofs_ok and translated:
        model_ok, _ = ctx.coq_make(["C01/Corr.vo"])     # the model may still build: use it for the search

    # 3. streams + implementation-side oracles
    fails = Fails()
    n_mols = 90 if ctx.quick else 900
    vcases = valid_stream(ctx, n_mols, 14 if ctx.quick else 26)
    terms, descr = [], []
    for c in vcases:
        o = observe(c["s"])
        c["o"] = o
        ctx.count("valid", c["s"], nontrivial=len(c["s"]) > 2, sample={"smiles": c["s"]})
        ctx.hist("valid", f"atoms={min(c['natoms'] // 5 * 5, 25)}+")
        for feat, pat in (("ring", r"[0-9]"), ("pct", "%"), ("bracket", r"\["), ("branch", r"\("), ("aromatic", "[cnos]"),
                          ("slash", r"[/\\]"), ("chiral", "@"), ("charge", r"[+-][0-9]?\]|[+-]:"), ("class", ":")):
            if re.search(pat, c["s"]):
                ctx.hist("valid", "has-" + feat)
        check_valid_case(ctx, c, o, fails)
        terms.append(term_for(c["s"], o))
        descr.append({"stream": "valid", "smiles": c["s"]})
        terms.append(f"check_chain {coq_chain(c['chain'])} {cstr(c['s'])}")
        descr.append({"stream": "valid-spec", "smiles": c["s"]})
    # re-spellings of one molecule: same RDKit canonical form
    by_mol = {}
    for c in vcases:
        if "canon" in c:
            by_mol.setdefault(c["mol"], set()).add(c["canon"])
    for k, cs in by_mol.items():
        if len(cs) > 1:
            ss = [c["s"] for c in vcases if c["mol"] == k]
            fails.add("Parser.parse|respelling-different-molecule",
                      f"re-spellings {ss} of one molecule are read as different molecules (RDKit canonical forms {sorted(cs)})",
                      ss[0], sorted(cs))
    ctx.log(f"valid stream: {len(vcases)} spellings of {n_mols} molecules; oracle failures so far {len(fails)}")
    fails.report(ctx)

    mcases = malformed_stream(ctx, vcases, 700 if ctx.quick else 12000)
    seen = set()
    for s in mcases:
        if s in seen:
            continue
        seen.add(s)
        o = observe(s)
        kind = check_malformed_case(ctx, s, o, fails)
        ctx.count("malformed", s, nontrivial=len(s) > 1, sample={"smiles": s, "outcome": o[0]})
        ctx.hist("malformed", kind)
        if s.isascii():
            terms.append(term_for(s, o))
            descr.append({"stream": "malformed", "smiles": s, "observed": o[0]})
    ctx.log(f"malformed stream: {len(seen)} strings; oracle failures {len(fails)}")
    # parser reuse: one Parser object, sequences of strings
    pool_strings = reuse_stream(ctx, fails, [c["s"] for c in vcases] + [s for s in seen if s.isascii()])
    for s in pool_strings:
        if s not in seen and s.isascii():
            seen.add(s)
            o = observe(s)
            terms.append(term_for(s, o))
            descr.append({"stream": "reuse-pool", "smiles": s, "observed": o[0]})
    ctx.log(f"reuse stream: {ctx.cov['streams'].get('reuse', {}).get('evaluations', 0)} parses on shared Parser objects")
    # bounded-exhaustive enumeration (implementation side; the Coq side is compared below)
    enum_t, enum_d = [], []
    plans = ([("Cc()1%=[]+", 4), ("C1%(", 6)] if ctx.quick else [("CNc()12%=[]H+-@/", 5), ("C1%()=", 7)])
    for alpha, total in plans:
        for L in range(1, total + 1):
            et, em = enum_terms(ctx, alpha, L, min(2, L - 1) if L > 2 else 0, fails)
            enum_t += et
            enum_d += [{"stream": "enum", "alphabet": a, "prefix": p, "suffix_len": k} for a, p, k in em]
    ctx.log(f"enumeration: {ctx.cov['streams']['enum']['evaluations']} strings; oracle failures {len(fails)}")
    fails.report(ctx)

    # 4. correspondence model vs implementation
    corr_bad, corr_err = [], None
    if model_ok:
        tt = table_check_terms()
        terms += tt
        descr += [{"stream": "tables", "term": t[:60]} for t in tt]
        # python int() on every 2-character string over the characters that matter for "%nn"
        chars = [9, 10, 11, 12, 13, 28, 31, 32, 43, 45, 48, 49, 53, 57, 95, 67, 46]
        for a in chars:
            for b in chars:
                two = chr(a) + chr(b)
                try:
                    v = f"(Some ({int(two)})%Z)"
                except ValueError:
                    v = "None"
                terms.append(f"check_int_codes [{a}; {b}] {v}")
                descr.append({"stream": "py-int", "codes": [a, b]})
        terms += enum_t
        descr += enum_d
        ctx.log(f"correspondence: {len(terms)} Coq terms")
        corr_bad, corr_err = ctx.coq_bad_indices(PRE, terms, per_file=250, name="c01cases", timeout=900)
        ctx.cov["disagreements"] = len(corr_bad)
        ctx.log(f"correspondence: {len(corr_bad)} disagreements" + (f"; coq error {corr_err[:400]}" if corr_err else ""))
    # 5. decide
    if not proofs_ok:
        ctx.proof_failure(info, found_any_input=bool(ctx.violations))
    if corr_bad or corr_err:
        if not ctx.violations:
            first = [descr[i] for i in corr_bad[:6]]
            for d in first:
                if d["stream"] == "enum" and "smiles" not in d:
                    hit = pinpoint_enum(ctx, d["alphabet"], d["prefix"], d["suffix_len"])
                    if hit:
                        d["smiles"], d["more"] = hit[0], hit[1:6]
                    break
            smi = next((d.get("smiles") for d in first if d.get("smiles") is not None), None)
            ctx.violation("model and implementation disagree" + (f" on {smi!r}" if smi is not None else "") +
                          f" (streams: {sorted({d['stream'] for d in first})}); the theorems of C01/Props.v are about the model, "
                          "so they no longer describe this parser",
                          {"kind": "correspondence", "first": first, "coq_terms": [terms[i][:800] for i in corr_bad[:3]],
                           "coq_error": corr_err}, found_input=smi is not None)
        else:
            ctx.log("correspondence disagreements reported next to the implementation-level findings above")
    ctx.check_known_still_fail({k for k, _ in ctx.known_hits})


def replay(ctx, obj):
    global ELEMENTS
    sys.path.insert(0, REPO)
    from rdkit import RDLogger
    RDLogger.DisableLog("rdApp.*")
    from autode.atoms import elements
    ELEMENTS = set(elements)
    rep = obj.get("replay", {})
    strings = []
    if isinstance(rep.get("smiles"), str):
        strings.append(rep["smiles"])
    for d in rep.get("first", []):
        if isinstance(d.get("smiles"), str):
            strings.append(d["smiles"])
    bad = 0
    for s in strings:
        o = observe(s)
        fails = Fails()
        check_malformed_case(ctx, s, o, fails)
        fails = sorted(fails.by_key)
        rc, out = ctx.coq_run("replay", PRE + "Definition r := Eval vm_compute in (" + term_for(s, o) + ").\nPrint r.\n")
        agree = "true" in out
        print(f"replay {s!r}: implementation -> {o[0]} {o[1:3]}; model agrees: {agree}; oracle findings: {fails}")
        bad += (not agree) or bool(fails)
    return 1 if bad else 0


MANIFEST = {
    "technique": "Coq proof over an executable character-by-character model of Parser.parse + an independent reference reader "
                 "(syntax tree, denotation, printer) in Coq; symbol/valence/element tables regenerated from source (ast "
                 "translator); exact model-vs-implementation correspondence and RDKit as third reader",
    "level_text": ("Machine-checked (coq/C01/Props.v, closed under the global context): parse is total and NEVER raises anything "
                   "but InvalidSmilesString, on every byte string; for EVERY lexically well-formed chain of the whole supported "
                   "grammar (organic/aromatic atoms, bracket atoms with @ marks, H count, charge, class, branches, ring bonds "
                   "with digit and %nn labels incl. reuse, all bond symbols incl. / and \\) that denotes a molecule, and every "
                   "spelling choice, parsing the spelling gives exactly the denoted atoms (label, charge, H count, class; same "
                   "numbering) and bonds (same pairs and orders, up to list order); hence total charge (= charge read off the "
                   "tree) and electron parity; invariance under injective ring-label renaming; rejection (Invalid) of '.'/'*', "
                   "of any first character that does not start an atom (ring digit before first atom, leading bond/paren/"
                   "unknown), of a trailing bond symbol, of an unterminated '[' anywhere, of unbalanced parentheses, and - for "
                   "strings without '[' and '%' - of unclosed ring digits and unknown characters.  Accepted-but-ill-formed "
                   "classes are _refuted witnesses tied to known findings."),
    "level_note": ("PARTIAL: (1) isomorphism of re-spellings with a different atom order is not mechanised (generator stream + "
                   "networkx + RDKit only); (2) stereo: only 'which atoms carry a mark' is modelled, and the theorems compare "
                   "atoms up to that flag; (3) unclosed-ring / unknown-character rejection is proved for bracket-free, %-free "
                   "strings only; (4) the model is over 7-bit strings.  Trusted: Coq kernel (+ vm_compute on the finite "
                   "generated tables, on the 256 ASCII codes and on concrete witnesses), tr/translate_c01.py (tables also compared "
                   "with the runtime objects each run), the hand model of Parser.parse (tied by exact comparison on generated, "
                   "mutated, random and bounded-exhaustive strings), RDKit/networkx as reference oracles, the Python generator "
                   "and serialisers."),
}
