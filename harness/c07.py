"""C07 — analytic derivatives equal the derivative of the function they belong to (DESIGN 6/C07).

Tie: gen/C07_Gen.v is regenerated from autode/opt/coordinates/_autodiff.py by tr/translate_c07.py on
every run (fail closed) and the theorems of coq/C07/Props.v are re-checked against it.  The generated
operations are also run against the real VectorHyperDual on random operation trees (exact, Qc), the
hand models of Primitive.derivative placement, IDPP and the bonded+repulsive force field are run
against the implementation, and the property's own oracle - central finite differences of the value
function - is evaluated on the implementation for expression trees, every primitive class, IDPP,
cconf_gen and (stationarity) the C++ potentials; every failure there is a concrete replay.
"""
import itertools
import json
import math
import os
import sys
from types import SimpleNamespace

import numpy as np

from common import COQ, REPO, VERIF, coq_list, coq_nat, coq_z, qc, qc_list, qc_mat, sh, source_pins

TRUSTED_BASE = [
    "Coq 8.16.1 kernel + coqc (vm_compute only inside the correspondence evaluation; no native_compute)",
    "Print Assumptions: jet-algebra, seeding and index-bookkeeping theorems are closed under the global context; the "
    "calculus / pair-potential theorems use the standard library real-number axioms and classical logic via Coquelicot "
    "(exact list copied into evidence on every run)",
    "Coquelicot 3.x (is_derive, auto_derive)",
    "translator tr/translate_c07.py (Python ast -> gen/C07_Gen.v; fail-closed; validated each run: translated operations "
    "vs VectorHyperDual on random operation trees over Qc, translated lambda triples vs DifferentiableMath numerically)",
    "hand models in coq/C07/Model.v of Primitive.derivative/second_derivative placement, IDPP and the bonded+repulsive "
    "pair terms, each tied by a model-vs-implementation stream",
    "real semantics Calculus.evR of the lambda expression language (math.pow(b, e) = powerRZ for an integer-valued "
    "exponent expression, Rpower otherwise; math.sqrt/exp/log/acos/atan = sqrt/exp/ln/acos/atan of the Coq reals)",
    "exact rationals / reals stand for IEEE doubles up to rounding; finite differences: central, h = 1e-5 (first), "
    "tolerance 1e-6 relative + twice the observed step-size sensitivity; cases whose finite difference is itself "
    "unstable are skipped and counted",
    "compiled extensions: cconf_gen v/dvdr are compared numerically (finite differences, Coq pair model); RBPotential has NO "
    "public entry point returning its energy or gradient - it is tied by a hand mirror of set_energy / set_energy_and_grad / "
    "SDOptimiser::run (whole-file pins on potentials.cpp, molecule.cpp, optimisers.cpp, the .pyx and headers) whose steepest-"
    "descent result must coincide with opt_rb_coords to 1e-7 (decision margins < 1e-9 skipped)",
]
ASSUMPTIONS = [
    "The step 'jet arithmetic + correct (f,f',f'') triples => the arrays are the gradient and Hessian of the composed "
    "n-variable function' (Fike & Alonso 2011) is standard mathematics and is not mechanised; it is exercised by the "
    "finite-difference oracle on generated expressions and on every primitive class",
    "atan2 itself is not defined in the Coq standard library: the theorem states that both branch formulas have the "
    "partial derivatives x/(x^2+y^2), -y/(x^2+y^2) of the polar angle",
    "The value function of a primitive is its object's own __call__ (one object evaluated at many geometries, as the optimisers "
    "do); derivatives, history-independence and rigid-motion invariance are all checked against THAT function. "
    "PrimitiveDummyLinearAngle fails the last two on the unchanged tree (dummy atom cached at the first geometry, placed "
    "along a Cartesian axis): reported as findings, not waived",
    "Pair-potential parameter matrices (d0, k, c, bond matrix) are symmetric by meaning; the theorems assume it and the "
    "generators symmetrise (cconf_gen / RBPotential read one triangle for the energy and both for the gradient); "
    "_get_bond_matrix's symmetry is checked",
    "RDihedralPotential / RRingDihedralPotential have no analytic derivative (forward difference inside the C++ code): the "
    "property says nothing about them; their minimiser's outcome is only histogrammed",
    "hyper-dual ** float at base exactly 0 (x ** 2.0 at 0 works in the code) is outside pow_triple_correct (Rpower; two-sided "
    "derivative does not exist on the code's domain [0, inf))",
    "VectorHyperDual ** k at value exactly 0.0 with k in {0, 1} raises ValueError (x0**(k-2) is evaluated): treated as a "
    "singular point of the implementation's formula (logged as an observation, no derivative is returned)",
]
RULE = ("streams: (trees-qc) random operation trees over {+,-,x,/,neg,number+,number-,number x,number/,**int,dot,cross} "
        "at dyadic points vs the translated Coq operations, exact; (trees-fd) random expression trees additionally over "
        "{sqrt,exp,log,acos,atan,atan2,**float,**hyperdual,number**hyperdual,norm} vs central finite differences of the value function "
        "(gradient, Hessian via differences of the gradient and via second differences of the value, order-1 vs order-2 "
        "gradient, Hessian symmetry); (primitives) every concrete class of primitives.py x generated non-singular "
        "geometries (dihedrals and impropers at 86, 90, 93.5, -88, -91 degrees in every run, at the edges of that band, near 0 and +-180 and at generic angles; near-linear bends) x random atom "
        "assignments x non-unit coefficients: value/derivative/second_derivative vs finite differences, exact zeros for "
        "uninvolved atoms, symmetry, rigid-motion invariance, placement vs the Coq model; (idpp, cconf) energy vs "
        "gradient by finite differences (step scaled to the closest pair) and vs the Coq pair model - on ordinary images, on "
        "images with one pair swept over 0.27, 0.3, 0.4, 0.48, 0.52, 0.7, 1, 1.6, 2.5, 4, 6 A, on crowded middle images of "
        "interpolations in which two atoms pass within 0.3-0.9 A of each other, and on expanded geometries; (idpp-seq) "
        "one IDPP object and one image: __call__ / grad at successive geometries in several orders, each result vs a fresh "
        "object and vs finite differences at the current geometry; (atan2-band) atan2 trees with the result inside, at the "
        "edge of and outside 0.1 rad of +-pi/2; (stationary) products / quotients / dot / cross / norm with a factor that is "
        "exactly stationary (or zero) at the point; primitives additionally on lattice (axis-aligned) geometries and with "
        "coordinates passed as plain float64 / float32 / int64 / int32 arrays or unit-carrying CartesianCoordinates / Coordinates in Angstrom, nm, pm, bohr; each "
        "primitive object also: value independent of the geometry it saw first, same object invariant under translation and "
        "rotation; (pic-seq) AnyPIC.get_B at successive geometries (and after a failing request): B matrices handed out "
        "earlier stay the derivative at their geometry; IDPP / cconf value and gradient under rigid motion; (cpp-rb) mirror of "
        "RBPotential = pair model = finite differences, opt_rb_coords = steepest descent with that mirror (exponents 2,3,4,6, "
        "random symmetric k, r0, c), equivariant under rigid motion; "
        "(triples) translated lambda triples vs DifferentiableMath; (singular) a small malformed stream of singular "
        "geometries whose outcome is only histogrammed. distinct = distinct generated case keys per stream")

SLICE = ["lib/Sums.v", "lib/QcInst.v", "C07/Model.v", "C07/Lemmas.v", "C07/Calculus.v", "C07/Props.v",
         "C07/Corr.v", "gen/C07_Gen.v"]
PRE = ("From Coq Require Import ZArith QArith Qcanon List Bool.\nFrom AV.lib Require Import Sums QcInst.\n"
       "From AV.C07 Require Import Model Corr.\nFrom AV.gen Require Import C07_Gen.\nImport ListNotations.\n")

# Functions the HAND-WRITTEN parts were written from and that the translator neither regenerates nor pins structurally:
#  Model.assemble1/assemble2/cart_idxs (placement), Model.idpp_term/idpp_coef + Calculus.idpp_energy/idpp_grad,
#  Corr.teval / coq_tree()'s expansion of dot and cross, the mocks of neb images, and the parts of pow / atan2 the
#  translator reads only partially (hyper-dual exponent branch; x_val / y_val extraction).
# (__add__, __neg__, __mul__, apply_operation, from_variable, the delegating dunders and sqrt/exp/log/acos/atan are
#  regenerated / matched statement by statement by tr/translate_c07.py on every run.)
PINS = [("autode/opt/coordinates/_autodiff.py", q) for q in (
    "get_differentiable_vars", "VectorHyperDual.__init__", "VectorHyperDual._init_deriv_arrays",
    "VectorHyperDual._check_compatible", "VectorHyperDual.copy", "VectorHyperDual.differentiate_wrt",
    "DifferentiableMath.pow", "DifferentiableMath.atan2",
    "DifferentiableVector3D.__init__", "DifferentiableVector3D.dot", "DifferentiableVector3D.cross",
    "DifferentiableVector3D.norm", "DifferentiableVector3D.__add__", "DifferentiableVector3D.__neg__",
    "DifferentiableVector3D.__sub__", "DifferentiableVector3D.__mul__", "DifferentiableVector3D.__rmul__",
    "DifferentiableVector3D.__truediv__", "VectorHyperDual.__radd__", "VectorHyperDual.__rmul__", "VectorHyperDual.__rpow__")] + [
    ("autode/opt/coordinates/primitives.py", q) for q in (
        "_get_3d_vecs_from_atom_idxs", "Primitive.__call__", "Primitive.derivative", "Primitive.second_derivative")] + [
    ("autode/neb/idpp.py", q) for q in (
        "IDPP.__init__", "IDPP.__call__", "IDPP.grad", "IDPP._set_distance_matrices", "IDPP._req_distance_matrix",
        "IDPP._distance_matrix", "IDPP._weight_matrix")] + [
    ("autode/conformers/conf_gen.py", "_get_bond_matrix"), ("autode/opt/coordinates/internals.py", "PIC.get_B")]
# non-Python sources Model.ff_term/ff_coef, Calculus.ff_energy/ff_grad and the Python mirrors rb_energy / Erep were read
# from: pinned as whitespace-normalised whole files in coq/C07/pins_text.json (common.source_pins handles .py only)
TEXT_PINS = ["autode/conformers/cconf_gen.pyx", "autode/ext/src/potentials.cpp", "autode/ext/ade_rb_opt.pyx",
             "autode/ext/src/molecule.cpp", "autode/ext/src/optimisers.cpp", "autode/ext/ade_dihedrals.pyx",
             "autode/ext/include/potentials.h", "autode/ext/include/optimisers.h", "autode/ext/include/molecule.h"]


def _text_hashes():
    import hashlib
    out = {}
    for rel in TEXT_PINS:
        try:
            txt = open(os.path.join(REPO, rel)).read()
            out[rel] = hashlib.sha256("\n".join(" ".join(ln.split()) for ln in txt.splitlines() if ln.strip()).encode()).hexdigest()
        except OSError:
            out[rel] = None
    return out


def text_pins_changed(update=False):
    pfile = os.path.join(COQ, "C07", "pins_text.json")
    cur = _text_hashes()
    if update:
        json.dump(cur, open(pfile, "w"), indent=1, sort_keys=True)
        return []
    if not os.path.exists(pfile):
        return [k + " (no pins_text.json recorded)" for k in cur]
    old = json.load(open(pfile))
    return sorted(k + " (whole file)" for k in cur if old.get(k) != cur[k])


H1 = 1e-5        # step for first differences
H2 = 1e-3        # step for second differences of the value
TOL1 = 1e-6
TOL2 = 1e-4
MAXFIND = 2      # concrete findings reported per key
MAXSTREAM = 8    # ... and per key family (text before the first '|')


# =============================================================================================
# finite-difference machinery
# =============================================================================================
def wrap_angle(d):
    return (d + math.pi) % (2 * math.pi) - math.pi


def central(f, x, i, h, wrap=False):
    xp, xm = x.copy(), x.copy()
    xp[i] += h
    xm[i] -= h
    d = f(xp) - f(xm)
    if wrap:
        d = wrap_angle(d) if np.isscalar(d) or np.ndim(d) == 0 else np.vectorize(wrap_angle)(d)
    return d / (2 * h)


def second_diff(f, x, i, j, h, wrap=False):
    def at(si, sj):
        y = x.copy()
        y[i] += si * h
        y[j] += sj * h
        return f(y)
    if i == j:
        f0 = f(x)
        a, b = at(1, 0) - f0, at(-1, 0) - f0
        if wrap:
            a, b = wrap_angle(a), wrap_angle(b)
        return (a + b) / (h * h)
    a = at(1, 1) - at(1, -1)
    b = at(-1, 1) - at(-1, -1)
    if wrap:
        a, b = wrap_angle(a), wrap_angle(b)
    return (a - b) / (4 * h * h)


def fd_judge(analytic, fd_h, fd_2h, tol):
    """-> 'ok' | 'bad' | 'unstable' for one entry (analytic vs two finite-difference estimates)."""
    if not (math.isfinite(analytic) and math.isfinite(fd_h) and math.isfinite(fd_2h)):
        return "bad" if not math.isfinite(analytic) else "unstable"
    scale = max(1.0, abs(analytic), abs(fd_h))
    est = abs(fd_h - fd_2h)
    if est > 1e-3 * scale:
        return "unstable"
    return "ok" if abs(analytic - fd_h) <= tol * scale + 2.0 * est else "bad"


class FD:
    """Collects the comparison of analytic arrays with finite differences for one case."""

    def __init__(self, scale=1.0):
        self.bad = []
        self.unstable = 0
        self.n = 0
        self.scale = scale        # length of 1 Angstrom in the units of the coordinates: steps are scaled with it

    def entry(self, what, idx, analytic, e1, e2, tol):
        self.n += 1
        j = fd_judge(float(analytic), float(e1), float(e2), tol)
        if j == "bad":
            self.bad.append({"what": what, "index": idx, "analytic": float(analytic), "finite_difference": float(e1)})
        elif j == "unstable":
            self.unstable += 1

    def gradient(self, f, x, g, idxs=None, wrap=False, what="first derivative", h=H1):
        h = h * self.scale
        for i in (range(len(x)) if idxs is None else idxs):
            self.entry(what, [int(i)], g[i], central(f, x, i, h, wrap), central(f, x, i, 2 * h, wrap), TOL1)

    def hessian_from_gradient(self, gf, x, Hm, idxs=None, what="second derivative (difference of the first derivative)"):
        idxs = list(range(len(x))) if idxs is None else list(idxs)
        for j in idxs:
            c1, c2 = central(gf, x, j, H1 * self.scale), central(gf, x, j, 2 * H1 * self.scale)
            for i in idxs:
                self.entry(what, [int(i), int(j)], Hm[i][j], c1[i], c2[i], TOL1)

    def hessian_from_value(self, f, x, Hm, pairs, wrap=False, what="second derivative (second difference of the value)"):
        for i, j in pairs:
            self.entry(what, [int(i), int(j)], Hm[i][j], second_diff(f, x, i, j, H2 * self.scale, wrap),
                       second_diff(f, x, i, j, 2 * H2 * self.scale, wrap), TOL2)


# =============================================================================================
# expression trees over VectorHyperDual
# =============================================================================================
RAT_BIN = ["add", "sub", "mul", "div"]
RAT_UN = ["neg", "adds", "radds", "subs", "rsub", "muls", "rmuls", "divs", "rdiv", "pow"]
TR_UN = ["sqrt", "exp", "log", "acos", "atan", "powf", "rpow"]
TR_BIN = ["atan2", "powhd"]
VEC = ["dot", "cross", "norm"]


def gen_scalar(rng):
    """Non-unit scalar factors: dyadic floats and Python ints (both are `numeric` for the code)."""
    if rng.random() < 0.3:
        return rng.choice([-3, -2, 2, 3, 5, 0, 1, -1])
    k = rng.choice([k for k in range(-20, 21) if k not in (0, 8)])
    return k / 8.0


def gen_tree(rng, depth, n, rational):
    if depth == 0 or rng.random() < 0.15:
        return ["var", rng.randrange(n)]
    r = rng.random()
    sub = lambda: gen_tree(rng, depth - 1, n, rational)   # noqa: E731
    vec_p = 0.18
    if r < vec_p:
        op = rng.choice(["dot", "cross"] if rational else VEC)
        a = [sub() if rng.random() < 0.5 else ["var", rng.randrange(n)] for _ in range(3)]
        if op == "norm":
            return ["norm", a]
        b = [sub() if rng.random() < 0.3 else ["var", rng.randrange(n)] for _ in range(3)]
        return [op, a, b] + ([rng.randrange(3)] if op == "cross" else [])
    if not rational and r < vec_p + 0.3:
        if rng.random() < 0.7:
            op = rng.choice(TR_UN)
            if op == "powf":
                return ["powf", sub(), rng.choice([0.5, 1.5, -0.5, 2.5, 1.0 / 3.0])]
            if op == "rpow":
                return ["rpow", sub(), rng.choice([2, 0.5, 1.5, 3.0])]
            return [op, sub()]
        return [rng.choice(TR_BIN), sub(), sub()]
    if r < 0.62:
        return [rng.choice(RAT_BIN), sub(), sub()]
    op = rng.choice(RAT_UN)
    if op == "neg":
        return ["neg", sub()]
    if op == "pow":
        return ["pow", sub(), rng.choice([2, 2, 3, -1, -2, 4, 1])]
    return [op, sub(), gen_scalar(rng)]


class Singular(Exception):
    pass


def build(t, xs, A):
    """Evaluate tree t on the list xs of VectorHyperDual variables using the implementation's own
    dunders / DifferentiableMath / DifferentiableVector3D (A = the _autodiff module)."""
    op = t[0]
    DM = A.DifferentiableMath

    def val(z):
        return z.value if isinstance(z, A.VectorHyperDual) else float(z)

    def guard(cond):
        if not cond:
            raise Singular()

    if op == "var":
        return xs[t[1]]
    if op in ("dot", "cross", "norm"):
        a = A.DifferentiableVector3D([build(s, xs, A) for s in t[1]])
        if op == "norm":
            guard(sum(val(c) ** 2 for c in a._data) > 0.09)
            return a.norm()
        b = A.DifferentiableVector3D([build(s, xs, A) for s in t[2]])
        return a.dot(b) if op == "dot" else a.cross(b)._data[t[3]]
    a = build(t[1], xs, A)
    if op == "neg":
        return -a
    if op in ("adds", "radds", "subs", "rsub", "muls", "rmuls", "divs", "rdiv"):
        c = t[2]
        if op == "divs":
            guard(abs(c) >= 0.25)
        if op == "rdiv":
            guard(abs(val(a)) >= 0.3)
        return {"adds": lambda: a + c, "radds": lambda: c + a, "subs": lambda: a - c, "rsub": lambda: c - a,
                "muls": lambda: a * c, "rmuls": lambda: c * a, "divs": lambda: a / c, "rdiv": lambda: c / a}[op]()
    if op == "pow":
        guard(t[2] >= 2 or abs(val(a)) >= 0.4)
        return a ** t[2]
    if op == "powf":
        guard(val(a) >= 0.3)
        return a ** t[2]
    if op == "rpow":                       # number ** hyper-dual (__rpow__)
        guard(abs(val(a)) <= 3)
        return t[2] ** a
    if op == "sqrt":
        guard(val(a) >= 0.3)
        return DM.sqrt(a)
    if op == "exp":
        guard(abs(val(a)) <= 4)
        return DM.exp(a)
    if op == "log":
        guard(val(a) >= 0.3)
        return DM.log(a)
    if op == "acos":
        guard(abs(val(a)) <= 0.85)
        return DM.acos(a)
    if op == "atan":
        return DM.atan(a)
    b = build(t[2], xs, A)
    if op == "add":
        return a + b
    if op == "sub":
        return a - b
    if op == "mul":
        return a * b
    if op == "div":
        guard(abs(val(b)) >= 0.3)
        return a / b
    if op == "atan2":
        guard(val(a) ** 2 + val(b) ** 2 >= 0.2)
        return DM.atan2(a, b)
    if op == "powhd":
        guard(val(a) >= 0.3 and abs(val(b)) <= 3)
        return a ** b
    raise ValueError(op)


def tree_ops(t, acc=None):
    acc = set() if acc is None else acc
    acc.add(t[0])
    for s in t[1:]:
        if isinstance(s, list) and s and isinstance(s[0], str):
            tree_ops(s, acc)
        elif isinstance(s, list):
            for u in s:
                if isinstance(u, list):
                    tree_ops(u, acc)
    return acc


def has_atan2(t):
    return "atan2" in tree_ops(t)


def eval_tree(A, t, x, order):
    syms = [f"v{i}" for i in range(len(x))]
    xs = [A.VectorHyperDual.from_variable(float(v), s, syms, A.DerivativeOrder(order)) for v, s in zip(x, syms)]
    r = build(t, xs, A)
    if not isinstance(r, A.VectorHyperDual):
        raise Singular()
    if not math.isfinite(r.value) or abs(r.value) > 1e3:
        raise Singular()
    return r


def usable(A, t, x):
    try:
        r = eval_tree(A, t, np.asarray(x, float), 2)
    except (Singular, AssertionError, ZeroDivisionError, OverflowError, ValueError):
        return None
    if not (np.all(np.isfinite(r._first_der)) and np.all(np.isfinite(r._second_der))):
        return None
    if max(np.abs(r._first_der).max(), np.abs(r._second_der).max()) > 1e4:
        return None
    return r


def check_tree_fd(A, t, x):
    """The property's oracle on one tree at one point.  -> (list of failures, n unstable, n entries)"""
    x = np.asarray(x, float)
    n = len(x)
    r2 = eval_tree(A, t, x, 2)
    r1 = eval_tree(A, t, x, 1)
    wrap = has_atan2(t) and t[0] == "atan2"

    def fval(y):
        try:
            return eval_tree(A, t, y, 0).value
        except (Singular, AssertionError, ZeroDivisionError, OverflowError, ValueError):
            return float("nan")

    def fgrad(y):
        try:
            return eval_tree(A, t, y, 1)._first_der.copy()
        except (Singular, AssertionError, ZeroDivisionError, OverflowError, ValueError):
            return np.full(n, float("nan"))
    fd = FD()
    g, Hm = r2._first_der, r2._second_der
    if abs(eval_tree(A, t, x, 0).value - r2.value) > 1e-12 * max(1, abs(r2.value)):
        fd.bad.append({"what": "value differs between derivative orders", "order0": eval_tree(A, t, x, 0).value,
                       "order2": r2.value})
    if not np.allclose(r1._first_der, g, rtol=1e-12, atol=1e-12):
        fd.bad.append({"what": "first derivative differs between order 1 and order 2",
                       "order1": r1._first_der.tolist(), "order2": g.tolist()})
    asym = np.abs(Hm - Hm.T).max()
    if asym > 1e-10 * max(1.0, np.abs(Hm).max()):
        fd.bad.append({"what": "second-derivative matrix is not symmetric", "max_asymmetry": float(asym)})
    fd.gradient(fval, x, g, wrap=wrap)
    fd.hessian_from_gradient(fgrad, x, Hm)
    fd.hessian_from_value(fval, x, Hm, [(i, j) for i in range(n) for j in range(i, n)], wrap=wrap)
    return fd


# ---- tree -> Coq (Corr.tree); dot / cross are expanded exactly as DifferentiableVector3D does ----
def coq_tree(t):
    op = t[0]
    if op == "var":
        return f"(TVar {t[1]})"
    if op == "dot":       # _autodiff.py:624-627: dot = 0; dot = dot + a_k * b_k   (0 + hd -> __radd__)
        a, b = [coq_tree(s) for s in t[1]], [coq_tree(s) for s in t[2]]
        acc = f"(TAddS (TMul {a[0]} {b[0]}) {qc(0)})"
        for k in (1, 2):
            acc = f"(TAdd {acc} (TMul {a[k]} {b[k]}))"
        return acc
    if op == "cross":     # _autodiff.py:726-735
        a, b = [coq_tree(s) for s in t[1]], [coq_tree(s) for s in t[2]]
        i, j = [(1, 2), (2, 0), (0, 1)][t[3]]
        return f"(TSub (TMul {a[i]} {b[j]}) (TMul {a[j]} {b[i]}))"
    a = coq_tree(t[1])
    if op == "neg":
        return f"(TNeg {a})"
    if op == "pow":
        return f"(TPow {a} {coq_z(t[2])})"
    two = {"adds": "TAddS {a} {c}", "radds": "TAddS {a} {c}", "subs": "TSubS {a} {c}", "rsub": "TRsub {c} {a}",
           "muls": "TMulS {a} {c}", "rmuls": "TMulS {a} {c}", "divs": "TDivS {a} {c}", "rdiv": "TRdiv {c} {a}"}
    if op in two:
        return "(" + two[op].format(a=a, c=qc(float(t[2]))) + ")"
    b = coq_tree(t[2])
    return "(" + {"add": "TAdd", "sub": "TSub", "mul": "TMul", "div": "TDiv"}[op] + f" {a} {b})"


def stream_trees(ctx, A, full):
    """-> (n_findings, coq_terms, coq_descr)"""
    rng = ctx.rng
    nfind = 0
    terms, descr = [], []
    n_qc = 1500 if full else 130
    n_fd = 6000 if full else 260
    made = 0
    attempts = 0
    while made < n_qc and attempts < 50 * n_qc:
        attempts += 1
        n = rng.choice([1, 2, 2, 3, 3])
        t = gen_tree(rng, rng.choice([1, 2, 2, 3]), n, True)
        x = [rng.randrange(-16, 17) / 8.0 for _ in range(n)]
        r = usable(A, t, x)
        if r is None or max(abs(r.value), np.abs(r._first_der).max(), np.abs(r._second_der).max()) > 500:
            continue
        made += 1
        ops = sorted(tree_ops(t))
        ctx.count("trees-qc", (json.dumps(t), x), nontrivial=(t[0] != "var"), sample={"tree": t, "x": x})
        for o in ops:
            ctx.hist("trees-qc", o)
        terms.append(f"check_tree {n} {qc_list(x)} {coq_tree(t)} {qc(r.value)} {qc_list(r._first_der.tolist())} "
                     f"{qc_mat(r._second_der.tolist())}")
        descr.append({"kind": "tree", "tree": t, "x": x})
        # the same tree also goes through the finite-difference oracle
        nfind += report_tree(ctx, A, t, x, "trees-qc")
    made = attempts = 0
    while made < n_fd and attempts < 50 * n_fd:
        attempts += 1
        n = rng.choice([1, 2, 3, 3, 4])
        t = gen_tree(rng, rng.choice([1, 2, 3, 3]), n, False)
        x = [round(rng.uniform(-2, 2), 3) for _ in range(n)]
        if usable(A, t, x) is None:
            continue
        made += 1
        ctx.count("trees-fd", (json.dumps(t), x), nontrivial=(t[0] != "var"), sample={"tree": t, "x": x})
        for o in sorted(tree_ops(t)):
            ctx.hist("trees-fd", o)
        nfind += report_tree(ctx, A, t, x, "trees-fd")
    return nfind, terms, descr


def stream_atan2_band(ctx, A, full):
    """atan2 trees whose result is deliberately within / at the edge of / outside 0.1 rad of +-pi/2."""
    rng = ctx.rng
    nfind = 0
    angles = [86.0, 90.0, 93.5, -88.0, -91.0, 84.5, 95.5, -84.5, -95.5, 84.0, 96.0, 10.0, 170.0, -135.0, 45.0]
    for rep in range(6 if full else 1):
        for ang in angles:
            th = math.radians(ang + (rng.uniform(-0.2, 0.2) if rep else 0.0))
            rad = rng.choice([0.6, 1.0, 1.7])
            y, x = rad * math.sin(th), rad * math.cos(th)
            c1, c2 = rng.choice([-2.0, 0.5, 1.5, 3]), rng.choice([-1.25, 0.75, 2])
            cases = [(["atan2", ["var", 0], ["var", 1]], [y, x]),
                     # y = c1 * v0, x = v1 + c2, plus a third variable multiplied in: derivatives flow through products
                     (["mul", ["atan2", ["muls", ["var", 0], c1], ["adds", ["var", 1], c2]], ["var", 2]], [y / c1, x - c2, 1.3]),
                     (["atan2", ["mul", ["var", 0], ["var", 2]], ["sub", ["var", 1], ["var", 2]]], [y / 0.8, x + 0.8, 0.8])]
            for t, pt in cases[: (3 if full or rep == 0 else 1)]:
                if usable(A, t, pt) is None:
                    continue
                ctx.count("atan2-band", (json.dumps(t), [round(v_, 6) for v_ in pt]), sample={"tree": t, "x": pt, "angle_deg": ang})
                ctx.hist("atan2-band", "within 0.1 rad of +-pi/2" if abs(abs(math.degrees(th)) - 90) < 5.7 else "other branch")
                nfind += report_tree(ctx, A, t, pt, "atan2-band")
    return nfind


def stream_stationary(ctx, A, full):
    """Products / quotients / dot products in which one factor is EXACTLY stationary at the evaluation point (zero
    gradient, non-zero curvature), incl. factors whose value is 0 there: the second derivative must keep the factor's
    curvature."""
    rng = ctx.rng
    nfind = 0
    for rep in range(8 if full else 2):
        x = [rng.randrange(-12, 13) / 8.0 for _ in range(3)]
        x[1] = x[1] or 0.625
        c = rng.choice([0.0, 1.5, -0.75])
        S0 = ["pow", ["subs", ["var", 0], x[0]], 2]                    # (v0 - x0)^2 : value 0, gradient 0, curvature 2
        S = S0 if c == 0.0 else ["rsub", S0, c]                        # c - (v0 - x0)^2
        S2 = ["adds", ["mul", ["subs", ["var", 2], x[2]], ["subs", ["var", 2], x[2]]], 2.0]
        templates = [["mul", S, ["var", 1]], ["mul", ["var", 1], S], ["mul", ["exp", ["var", 2]], S], ["mul", S, S2],
                     ["mul", ["mul", S, ["var", 1]], ["var", 2]], ["div", ["var", 1], ["rsub", S0, 1.5]],
                     ["dot", [S, ["var", 1], ["var", 2]], [["var", 1], ["var", 2], ["var", 0]]],
                     ["cross", [S, ["var", 1], ["var", 2]], [["var", 2], S2, ["var", 1]], 2],
                     ["norm", [["adds", S0, 1.0], ["var", 1], ["subs", ["var", 2], x[2]]]],
                     ["mul", ["sqrt", ["adds", S0, 1.0]], ["var", 1]]]
        for t in templates:
            if usable(A, t, x) is None:
                continue
            ctx.count("stationary", (json.dumps(t), x), sample={"tree": t, "x": x})
            nfind += report_tree(ctx, A, t, x, "stationary")
    return nfind


_reported = {}


def report(ctx, key, what, rep):
    fam = key.split("|")[0] + "|*"
    _reported[key] = _reported.get(key, 0) + 1
    _reported[fam] = _reported.get(fam, 0) + 1
    if _reported[key] == 1 or (_reported[key] <= MAXFIND and _reported[fam] <= MAXSTREAM):   # a key's first case is always reported
        ctx.finding(key, what, rep)
    return 1


def report_tree(ctx, A, t, x, stream):
    try:
        fd = check_tree_fd(A, t, x)
    except (Singular, AssertionError, ZeroDivisionError, OverflowError, ValueError):
        ctx.hist(stream, "fd-singular-skipped")
        return 0
    if fd.unstable:
        ctx.hist(stream, "fd-unstable-entries-skipped")
    if not fd.bad:
        return 0
    # shrink: replace any node by one of its children or by a variable while the failure persists
    def fails(c):
        if usable(A, c, x) is None:
            return False
        try:
            return bool(check_tree_fd(A, c, x).bad)
        except (Singular, AssertionError, ZeroDivisionError, OverflowError, ValueError):
            return False
    best = t
    steps = 0
    improved = True
    while improved and steps < 60:
        improved = False
        for c in sorted(shrink_candidates(best, len(x)), key=tree_size):
            steps += 1
            if tree_size(c) < tree_size(best) and fails(c):
                best, improved = c, True
                break
    fdb = check_tree_fd(A, best, x)
    first = fdb.bad[0]
    ops = "+".join(sorted(tree_ops(best) - {"var"})) or "var"
    return report(ctx, f"hyperdual|{ops}", f"expression {json.dumps(best)} at x={list(x)}: {first['what']} "
                  f"{json.dumps({k: v for k, v in first.items() if k != 'what'})}",
                  {"kind": "tree", "tree": best, "x": list(x), "failures": fdb.bad[:6]})


def children(t):
    """positions of sub-trees: list of (getter path) as index tuples"""
    out = []
    for i, s_ in enumerate(t[1:], 1):
        if isinstance(s_, list) and s_ and isinstance(s_[0], str):
            out.append((i,))
        elif isinstance(s_, list):
            for j, u in enumerate(s_):
                if isinstance(u, list) and u and isinstance(u[0], str):
                    out.append((i, j))
    return out


def get_at(t, path):
    for p_ in path:
        t = t[p_]
    return t


def set_at(t, path, new):
    if not path:
        return new
    c = list(t)
    if len(path) == 1:
        c[path[0]] = new
    else:
        inner = list(c[path[0]])
        inner[path[1]] = new
        c[path[0]] = inner
    return c


def tree_size(t):
    return 1 + sum(tree_size(get_at(t, p_)) for p_ in children(t))


def shrink_candidates(t, n):
    """Trees with one node replaced by one of its children (hoisting) or by a variable."""
    out = []
    if t[0] != "var":
        for p_ in children(t):
            out.append(get_at(t, p_))
    for p_ in children(t):
        sub = get_at(t, p_)
        if sub[0] != "var":
            for k in range(n):
                out.append(set_at(t, p_, ["var", k]))
        for c in shrink_candidates(sub, n):
            out.append(set_at(t, p_, c))
    return out


# =============================================================================================
# translated lambda triples vs DifferentiableMath (validates the translator's reading)
# =============================================================================================
def ev_uexpr(e, x, y=0.0, power=None):
    k = e[0]
    if k == "UX":
        return x
    if k == "UY":
        return y
    if k == "UPower":
        return power
    if k == "UCst":
        return e[1]
    if k in ("UAdd", "USub", "UMul", "UDiv", "UPow"):
        a, b = ev_uexpr(e[1], x, y, power), ev_uexpr(e[2], x, y, power)
        return {"UAdd": lambda: a + b, "USub": lambda: a - b, "UMul": lambda: a * b, "UDiv": lambda: a / b,
                "UPow": lambda: math.pow(a, b)}[k]()
    a = ev_uexpr(e[1], x, y, power)
    return {"UNeg": lambda: -a, "USqrt": lambda: math.sqrt(a), "UExp": lambda: math.exp(a), "ULog": lambda: math.log(a),
            "UAcos": lambda: math.acos(a), "UAtan": lambda: math.atan(a)}[k]()


def stream_triples(ctx, A, tinfo):
    nfind = 0
    DM = A.DifferentiableMath
    pts = {"sqrt": [0.3, 1.0, 2.5, 7.0], "log": [0.3, 1.0, 2.5, 7.0], "exp": [-2.0, 0.0, 1.5], "acos": [-0.9, -0.3, 0.0, 0.5, 0.95],
           "atan": [-5.0, -0.5, 0.0, 2.0], "pow": [0.4, 1.0, 2.5, -1.5]}
    for name, trip in tinfo["triples"].items():
        for x in pts[name]:
            powers = [None] if name != "pow" else ([2, 3, -1, -2, 1] + ([0.5, 1.5, -0.5] if x > 0 else []))
            for p in powers:
                var = A.VectorHyperDual.from_variable(x, "x", ["x"], A.DerivativeOrder.second)
                r = getattr(DM, name)(var) if p is None else DM.pow(var, p)
                got = [r.value, r._first_der[0], r._second_der[0, 0]]
                want = [ev_uexpr(e, x, 0.0, p) for e in trip]
                ctx.count("triples", (name, x, p), sample={"function": name, "x": x, "power": p})
                if not np.allclose(got, want, rtol=1e-12, atol=1e-12):
                    nfind += report(ctx, f"translator|triple-{name}",
                                    f"translated triple of DifferentiableMath.{name} evaluates to {want} at x={x}"
                                    f"{'' if p is None else f', power={p}'} but the implementation returns {got}",
                                    {"kind": "triple", "function": name, "x": x, "power": p})
    # atan2 branch formulas: derivatives of both must agree with the implementation's atan2
    for (yv, xv) in [(0.3, 1.2), (1.1, 0.05), (-0.9, -0.04), (0.4, -1.5), (-1.0, 1.0), (1.0, 0.103), (1.0, 0.097)]:
        syms = ["y", "x"]
        vy = A.VectorHyperDual.from_variable(yv, "y", syms, A.DerivativeOrder.second)
        vx = A.VectorHyperDual.from_variable(xv, "x", syms, A.DerivativeOrder.second)
        r = DM.atan2(vy, vx)
        near = math.isclose(abs(math.atan2(yv, xv)), math.pi / 2, abs_tol=0.1)
        br = tinfo["atan2"]["x_close_0" if near else "x_not_0"]
        h = 1e-6
        gy = (ev_uexpr(br, xv, yv + h) - ev_uexpr(br, xv, yv - h)) / (2 * h)
        gx = (ev_uexpr(br, xv + h, yv) - ev_uexpr(br, xv - h, yv)) / (2 * h)
        ctx.count("triples", ("atan2", yv, xv), sample={"function": "atan2", "y": yv, "x": xv, "branch_near_half_pi": near})
        if not np.allclose([gy, gx], r._first_der, rtol=1e-6, atol=1e-6) or abs(r.value - math.atan2(yv, xv)) > 1e-14:
            nfind += report(ctx, "translator|atan2-branch", f"atan2({yv},{xv}): translated branch gives gradient {[gy, gx]}, "
                            f"implementation {r._first_der.tolist()}, value {r.value}", {"kind": "atan2", "y": yv, "x": xv})
    return nfind


# =============================================================================================
# primitives
# =============================================================================================
def rand_rotation(rs):
    q = rs.normal(size=4)
    q /= np.linalg.norm(q)
    a, b, c, d = q
    return np.array([[a * a + b * b - c * c - d * d, 2 * (b * c - a * d), 2 * (b * d + a * c)],
                     [2 * (b * c + a * d), a * a - b * b + c * c - d * d, 2 * (c * d - a * b)],
                     [2 * (b * d - a * c), 2 * (c * d + a * b), a * a - b * b - c * c + d * d]])


def angle(a, b, c):
    u, v = a - b, c - b
    return math.acos(max(-1, min(1, np.dot(u, v) / np.linalg.norm(u) / np.linalg.norm(v))))


def rand_geometry(rs, n, dmin=0.8):
    for _ in range(200):
        X = rs.uniform(-2.2, 2.2, size=(n, 3))
        d = np.linalg.norm(X[:, None] - X[None], axis=-1) + 10 * np.eye(n)
        if d.min() >= dmin:
            return X
    raise RuntimeError("geometry")


def place_dihedral(rs, X, m, o, p, n, phi):
    """Move atom n so that the dihedral m-o-p-n is phi, keeping |p-n| and the angle o-p-n."""
    b1, b2 = X[o] - X[m], X[p] - X[o]
    e2 = b2 / np.linalg.norm(b2)
    # reference direction: component of -b1 perpendicular to b2
    r = -b1 - np.dot(-b1, e2) * e2
    r /= np.linalg.norm(r)
    s = np.cross(e2, r)
    theta = rs.uniform(math.radians(60), math.radians(120))
    L = rs.uniform(1.0, 1.6)
    # bond p->n makes angle theta with -e2; rotate around e2 by phi from r
    X = X.copy()
    X[n] = X[p] + L * (-math.cos(theta) * (-e2) + math.sin(theta) * (math.cos(phi) * r + math.sin(phi) * s))
    return X


def primitive_cases(ctx, P, full):
    """Yield (class name, constructor kwargs (JSON-able), geometry ndarray, tag)."""
    rng = ctx.rng
    rs = np.random.RandomState(rng.randrange(2 ** 31))
    reps = 24 if full else 2
    for rep in range(reps):
        n = rng.choice([5, 6, 7])
        idx = lambda k: rng.sample(range(n), k)   # noqa: E731
        # distances
        for cls in ("PrimitiveDistance", "PrimitiveInverseDistance", "ConstrainedPrimitiveDistance"):
            i, j = idx(2)
            kw = {"i": i, "j": j}
            if cls.startswith("Constrained"):
                kw["value"] = 1.3
            yield cls, kw, rand_geometry(rs, n), "generic"
        # bond angles incl. fairly bent and fairly open ones
        for cls in ("PrimitiveBondAngle", "ConstrainedPrimitiveBondAngle"):
            for lo, hi, tag in ((20, 160, "generic"), (15, 40, "sharp"), (140, 168, "open")):
                for _ in range(400):
                    X = rand_geometry(rs, n)
                    m, o, nn = idx(3)
                    if math.radians(lo) < angle(X[m], X[o], X[nn]) < math.radians(hi):
                        break
                else:
                    continue
                kw = {"m": m, "o": o, "n": nn}
                if cls.startswith("Constrained"):
                    kw["value"] = 1.9
                yield cls, kw, X, tag
        # dihedrals: prescribed angles around every branch of atan2 plus random ones
        # atan2 differentiates -atan(x/y) when |phi| is within 0.1 rad of 90 deg (84.3 .. 95.7) and atan(y/x) elsewhere:
        # every repetition places angles inside that band, at its edges, near 0 and +-180 and at generic values
        band = [86.0, 90.0, 93.5, -88.0, -91.0]
        edges = [84.0, 84.6, 95.4, 96.0, -84.0, -96.0]
        other = [0.0, 3.0, -30.0, 45.0, 150.0, 176.0, 180.0, -178.0, -150.0]
        jig = lambda a: math.radians(a + (rng.uniform(-0.25, 0.25) if rep else 0.0))   # noqa: E731
        chosen = [jig(a) for a in (band if full or rep == 0 else rng.sample(band, 2))] + \
                 [jig(rng.choice(edges)), jig(rng.choice(other)), jig(rng.choice(other)), rng.uniform(-math.pi, math.pi)]
        for cls in ("PrimitiveDihedralAngle", "PrimitiveImproperDihedral"):
            for phi in chosen:
                for _ in range(80):
                    X = rand_geometry(rs, n)
                    m, o, p, nn = idx(4)
                    if not (math.radians(35) < angle(X[m], X[o], X[p]) < math.radians(145)):
                        continue
                    X2 = place_dihedral(rs, X, m, o, p, nn, phi)
                    d = np.linalg.norm(X2[:, None] - X2[None], axis=-1) + 10 * np.eye(n)
                    if d.min() >= 0.6:
                        break
                yield cls, {"m": m, "o": o, "p": p, "n": nn}, X2, f"phi={math.degrees(phi):.0f}"
        # linear bends: near-linear m-o-n (the intended use) and generic bent geometries
        for cls in ("PrimitiveLinearAngle", "PrimitiveDummyLinearAngle"):
            for axis in ("BEND", "COMPLEMENT"):
                for near_linear in (True, False):
                    for _ in range(80):
                        X = rand_geometry(rs, n)
                        m, o, nn, r = idx(4)
                        if near_linear:
                            u = X[m] - X[o]
                            w = rs.normal(size=3) * rng.choice([0.0, 0.02, 0.15])
                            X[nn] = X[o] - u / np.linalg.norm(u) * rs.uniform(1.0, 1.5) + w
                        d = np.linalg.norm(X[:, None] - X[None], axis=-1) + 10 * np.eye(n)
                        ok = d.min() >= 0.6 and math.radians(30) < angle(X[m], X[o], X[r]) < math.radians(150)
                        if cls == "PrimitiveDummyLinearAngle":
                            ok = d.min() >= 0.6
                        if ok:
                            break
                    kw = {"m": m, "o": o, "n": nn, "axis": axis}
                    if cls == "PrimitiveLinearAngle":
                        kw["r"] = r
                    yield cls, kw, X, "near-linear" if near_linear else "generic"
        # weighted combinations of bonds, NON-UNIT coefficients
        for cls in ("CompositeBonds", "ConstrainedCompositeBonds"):
            nb = rng.choice([1, 2, 3])
            pairs = set()
            while len(pairs) < nb:
                i, j = idx(2)
                if (j, i) not in pairs:
                    pairs.add((i, j))
            coeffs = [rng.choice([-2.5, -1.5, -0.5, 0.25, 0.5, 1.5, 2.0, 3.0]) for _ in pairs]
            if rep == 0:
                coeffs[0] = 3.0
            kw = {"bonds": [list(b) for b in sorted(pairs)], "coeffs": coeffs}
            if cls.startswith("Constrained"):
                kw["value"] = 0.4
            yield cls, kw, rand_geometry(rs, n), "non-unit-coefficients"


def geometry_ok(cls, kw, X):
    deg = math.degrees
    if "BondAngle" in cls:
        return 20 < deg(angle(X[kw["m"]], X[kw["o"]], X[kw["n"]])) < 160
    if "Dihedral" in cls:
        return 35 < deg(angle(X[kw["m"]], X[kw["o"]], X[kw["p"]])) < 145 and 35 < deg(angle(X[kw["o"]], X[kw["p"]], X[kw["n"]])) < 145
    if cls == "PrimitiveLinearAngle":
        return 30 < deg(angle(X[kw["m"]], X[kw["o"]], X[kw["r"]])) < 150
    return True


def lattice_cases(ctx, P, full):
    """Axis-aligned / lattice geometries: coordinates are small integers, so components of bond vectors vanish exactly,
    factors of products are exactly stationary and hyper-dual powers are taken at the value 0."""
    rng = ctx.rng
    rs = np.random.RandomState(rng.randrange(2 ** 31))
    ARGS = {"PrimitiveDistance": "ij", "PrimitiveInverseDistance": "ij", "ConstrainedPrimitiveDistance": "ij",
            "PrimitiveBondAngle": "mon", "ConstrainedPrimitiveBondAngle": "mon", "PrimitiveDihedralAngle": "mopn",
            "PrimitiveImproperDihedral": "mopn", "PrimitiveLinearAngle": "monr", "PrimitiveDummyLinearAngle": "mon"}
    for rep in range(4 if full else 1):
        for cls, names in ARGS.items():
            for axis in (("BEND", "COMPLEMENT") if "Linear" in cls else (None,)):
                for _ in range(300):
                    n = rng.choice([5, 6])
                    pts = set()
                    while len(pts) < n:
                        pts.add(tuple(int(v_) for v_ in rs.randint(-2, 3, size=3)))
                    X = np.array(sorted(pts), float)[rs.permutation(n)]
                    kw = dict(zip(names, rng.sample(range(n), len(names))))
                    if "Linear" in cls:       # m-o along one Cartesian axis, n on the other side, reference atom along another axis
                        e = np.eye(3)[rs.permutation(3)]
                        X[kw["o"]] = 0.0
                        X[kw["m"]], X[kw["n"]] = e[0], -e[0] * rng.choice([1, 2]) + e[2] * rng.choice([0, 0, 1])
                        if "r" in kw:
                            X[kw["r"]] = e[1] * rng.choice([1, 2])
                        kw["axis"] = axis
                    if cls.startswith("Constrained"):
                        kw["value"] = 1.5
                    if len({tuple(r_) for r_ in X.tolist()}) == n and geometry_ok(cls, kw, X):
                        yield cls, kw, X, "lattice"
                        break
        for cls in ("CompositeBonds", "ConstrainedCompositeBonds"):
            n = 5
            pts = set()
            while len(pts) < n:
                pts.add(tuple(int(v_) for v_ in rs.randint(-2, 3, size=3)))
            X = np.array(sorted(pts), float)
            i, j, k = rng.sample(range(n), 3)
            kw = {"bonds": [[i, j], [j, i], [j, k]], "coeffs": [1.5, -0.5, 2.0]}      # both (i,j) and (j,i)
            if cls.startswith("Constrained"):
                kw["value"] = 0.4
            yield cls, kw, X, "lattice"


def make_primitive(P, cls, kw):
    kw = dict(kw)
    if "axis" in kw:
        kw["axis"] = getattr(P.LinearBendType, kw["axis"])
    if "bonds" in kw:
        kw["bonds"] = [tuple(b) for b in kw["bonds"]]
    return getattr(P, cls)(**kw)


def primitive_atoms(kw):
    if "bonds" in kw:
        return sorted(set(itertools.chain(*kw["bonds"])))
    return [kw[k] for k in ("i", "j", "m", "o", "p", "n", "r") if k in kw]


CONTAINERS = {                      # name -> (class path, unit, length of 1 Angstrom in that unit)
    "ndarray": (None, None, 1.0),
    "cartesian-ang": ("CartesianCoordinates", "ang", 1.0),
    "cartesian-nm": ("CartesianCoordinates", "nm", 0.1),
    "cartesian-pm": ("CartesianCoordinates", "pm", 100.0),
    "coordinates-a0": ("Coordinates", "a0", 1.0 / 0.529177210903),
    # plain arrays of another dtype (used on integer-valued lattice geometries only, where the cast is exact)
    "ndarray-int64": ("dtype", "int64", 1.0),
    "ndarray-int32": ("dtype", "int32", 1.0),
    "ndarray-float32": ("dtype", "float32", 1.0),
}
DTYPE_CONTAINERS = ["ndarray-int64", "ndarray-int32", "ndarray-float32"]


def container_wrap(name):
    """-> function turning a flat float array (already in the container's unit) into the coordinate object the package
    would pass (plain ndarray, unit-carrying CartesianCoordinates / Coordinates)."""
    kind, unit, _ = CONTAINERS[name]
    if kind is None:
        return lambda y: np.array(y, float)
    if kind == "dtype":      # the geometry itself (integer-valued) in the given dtype; displaced points stay float64
        return lambda y: (np.array(y).astype(unit) if np.all(np.asarray(y) == np.round(y)) else np.array(y, float))
    if kind == "CartesianCoordinates":
        from autode.opt.coordinates import CartesianCoordinates
        return lambda y: CartesianCoordinates(np.array(y, float), units=unit)
    from autode.values import Coordinates
    return lambda y: Coordinates(np.array(y, float).reshape(-1, 3), units=unit)


def check_primitive(P, cls, kw, X, rs, container="ndarray"):
    """The value function of a primitive is the object's own __call__ (ONE object, as the optimisers use it): its
    derivative / second_derivative are compared with finite differences of that function, its value must not depend on
    which geometry the object saw first, and it must be invariant when the same object is evaluated on a rigidly moved
    geometry.  -> (failures list, n_unstable, info dict with arrays for the Coq placement check)."""
    prim = make_primitive(P, cls, kw)
    scale = CONTAINERS[container][2]
    wrap_c = container_wrap(container)
    x0 = X.flatten().astype(float) * scale
    natoms = len(x0) // 3
    is_dih = "Dihedral" in cls
    val0 = prim(wrap_c(x0))
    g = np.array(np.asarray(prim.derivative(wrap_c(x0))), dtype=float)      # plain arrays (drop the unit-carrying subclass)
    Hm = np.array(np.asarray(prim.second_derivative(wrap_c(x0))), dtype=float)
    fails = []
    if not (math.isfinite(val0) and np.all(np.isfinite(g)) and np.all(np.isfinite(Hm))):
        return [{"what": "non-finite value or derivative at a non-singular geometry"}], 0, None
    atoms = primitive_atoms(kw)
    involved = [3 * a + k for a in atoms for k in range(3)]
    others = [i for i in range(len(x0)) if i not in involved]
    # exact zeros for atoms not involved
    if np.any(g[others] != 0.0):
        fails.append({"what": "derivative w.r.t. an atom that is not involved is not exactly zero",
                      "index": [int(i) for i in others if g[i] != 0.0][:4]})
    if np.any(Hm[others, :] != 0.0) or np.any(Hm[:, others] != 0.0):
        fails.append({"what": "second derivative w.r.t. an atom that is not involved is not exactly zero"})
    asym = float(np.abs(Hm - Hm.T).max())
    if asym > 1e-10 * max(1.0, float(np.abs(Hm).max())):
        fails.append({"what": "second-derivative matrix is not symmetric", "max_asymmetry": asym})
    fd = FD(scale)
    f = lambda y: prim(wrap_c(y))                  # noqa: E731
    fd.gradient(f, x0, g, wrap=is_dih)     # ALL Cartesian components, uninvolved ones included
    fd.hessian_from_gradient(lambda y: np.asarray(prim.derivative(wrap_c(y)), float), x0, Hm, idxs=involved)
    pairs = [(rs.choice(involved), rs.choice(involved)) for _ in range(8)] + [(i, i) for i in rs.choice(involved, 3)]
    fd.hessian_from_value(f, x0, Hm, pairs, wrap=is_dih)
    fails += fd.bad
    # the value is a function of the geometry only: an object that first saw another geometry gives the same value
    other = make_primitive(P, cls, kw)
    other(wrap_c(x0 + scale * rs.uniform(-0.3, 0.3, size=len(x0))))
    v_hist = other(wrap_c(x0))
    dv = wrap_angle(v_hist - val0) if is_dih else v_hist - val0
    if abs(dv) > 1e-8 * max(1.0, abs(val0)):
        fails.append({"what": "value depends on the geometry the object evaluated first", "fresh_object": float(val0),
                      "object_first_evaluated_elsewhere": float(v_hist)})
    # rigid motion, SAME object (the value function is the one whose derivatives were checked above)
    R, tvec = rand_rotation(rs), rs.uniform(-3, 3, size=3)
    for label, Y in (("translation", X + tvec), ("rotation + translation", X @ R.T + tvec)):
        v2 = prim(wrap_c(Y.flatten() * scale))
        dv = wrap_angle(v2 - val0) if is_dih else v2 - val0
        if abs(dv) > 1e-8 * max(1.0, abs(val0)):
            fails.append({"what": "value changes under a rigid motion", "motion": label, "before": float(val0), "after": float(v2)})
            break
    # arrays for the placement model
    A = sys.modules["autode.opt.coordinates._autodiff"]
    r1 = prim._evaluate(wrap_c(x0), A.DerivativeOrder.first)
    r2 = prim._evaluate(wrap_c(x0), A.DerivativeOrder.second)
    info = {"symbols": [int(s_) for s_ in r2._symbols], "g": r1._first_der.tolist(), "h": r2._second_der.tolist(),
            "outg": np.asarray(g, float).tolist(), "outh": np.asarray(Hm, float).tolist(), "n3": len(x0), "natoms": natoms}
    return fails, fd.unstable, info


def stream_primitives(ctx, P, full):
    nfind = 0
    terms, descr = [], []
    rs = np.random.RandomState(ctx.rng.randrange(2 ** 31))
    seen_cls = set()
    placed = set()
    n_place = 0
    unit_containers = [c_ for c_ in CONTAINERS if c_ != "ndarray" and c_ not in DTYPE_CONTAINERS]

    def all_cases():
        for case in primitive_cases(ctx, P, full):
            yield case + (ctx.rng.choice(unit_containers) if ctx.rng.random() < 0.3 else "ndarray",)
        for q, case in enumerate(lattice_cases(ctx, P, full)):
            yield case + (ctx.rng.choice(unit_containers) if ctx.rng.random() < 0.3 else "ndarray",)
            yield case + (DTYPE_CONTAINERS[q % 3],)      # the same integer-valued geometry as int64 / int32 / float32 array
    for cls, kw, X, tag, container in all_cases():
        seen_cls.add(cls)
        ctx.count("primitives", (cls, json.dumps(kw, sort_keys=True), X.round(6).tolist(), container),
                  sample={"class": cls, "args": kw, "tag": tag})
        ctx.hist("primitives", f"{cls}:{tag.split('=')[0]}")
        ctx.hist("primitives", f"container:{container}")
        rep = {"kind": "primitive", "class": cls, "args": kw, "coords": X.tolist(), "container": container}
        try:
            fails, unstable, info = check_primitive(P, cls, kw, X, rs, container)
        except Exception as e:   # noqa: BLE001  a crash on a non-singular geometry is a failure to provide the derivative
            key = f"primitive|{cls}|raises" + ("|integer-dtype coordinates" if "int" in container else "|float32 coordinates" if "float32" in container else "")
            nfind += report(ctx, key, f"{cls}({kw}) [{tag}, coordinates as {container}] raised {type(e).__name__}: {e} at a non-singular "
                            f"geometry", rep)
            continue
        if unstable:
            ctx.hist("primitives", "fd-unstable-entries-skipped")
        seen_kinds = set()
        for fl in fails:
            kind = fl["what"].split(" (")[0]
            if kind in seen_kinds:
                continue
            seen_kinds.add(kind)
            rep_k = dict(rep, failures=[x_ for x_ in fails if x_["what"].split(" (")[0] == kind][:6])
            nfind += report(ctx, f"primitive|{cls}|{kind}", f"{cls}({kw}) [{tag}, coordinates as {container}]: {fl['what']} "
                            f"{json.dumps({k: v for k, v in fl.items() if k != 'what'})}", rep_k)
        # placement vs the Coq model (exact); a subset keeps the Coq input small
        if info is not None and ((full and n_place < 120) or (n_place < 14 and cls not in placed)):
            placed.add(cls)
            atoms = [s // 3 for s in info["symbols"][0::3]]
            want_syms = [3 * a + k for a in atoms for k in range(3)]
            expect = primitive_atoms(kw)       # the atoms the primitive was CONSTRUCTED with (order matters except for bond sums)
            if info["symbols"] != want_syms or (sorted(atoms) != sorted(expect) if "bonds" in kw else atoms != expect):
                nfind += report(ctx, f"primitive|{cls}|symbols", f"{cls}({kw}): hyper-dual symbols {info['symbols']} are not the "
                                f"Cartesian indices of its atoms", rep)
                continue
            n_place += 1
            terms.append(f"check_assemble {coq_list([coq_nat(a) for a in atoms])} {info['n3']} {qc_list(info['g'])} "
                         f"{qc_mat(info['h'])} {qc_list(info['outg'])} {qc_mat(info['outh'])}")
            descr.append(rep)
            ctx.count("placement-qc", (cls, json.dumps(kw, sort_keys=True), X.round(6).tolist()))
    want = {"PrimitiveDistance", "PrimitiveInverseDistance", "ConstrainedPrimitiveDistance", "PrimitiveBondAngle",
            "ConstrainedPrimitiveBondAngle", "PrimitiveDihedralAngle", "PrimitiveImproperDihedral", "PrimitiveLinearAngle",
            "PrimitiveDummyLinearAngle", "CompositeBonds", "ConstrainedCompositeBonds"}
    concrete = {n for n in dir(P) if isinstance(getattr(P, n), type) and issubclass(getattr(P, n), P.Primitive)
                and not getattr(getattr(P, n), "__abstractmethods__", None)}
    ctx.cov["streams"]["primitives"]["classes_covered"] = sorted(seen_cls)
    missing = concrete - want
    if missing:
        ctx.violation(f"primitives.py defines concrete primitive classes the check does not generate: {sorted(missing)}",
                      {"kind": "coverage", "classes": sorted(missing)}, found_input=False)
    return nfind, terms, descr


# =============================================================================================
# pair potentials
# =============================================================================================
def dist_matrix(X):
    return np.linalg.norm(X[:, None] - X[None], axis=-1)


def min_pair_distance(X):
    X = np.asarray(X, float).reshape(-1, 3)
    if len(X) < 2:
        return 1.0
    return float((dist_matrix(X) + 1e9 * np.eye(len(X))).min())


def fd_step(X):
    """Central-difference step scaled to the closest pair: the pair terms behave like r^-4 ... r^-10, so the relative
    truncation error (h/r)^2 and the relative round-off eps*r/h are both kept near 1e-10 / 1e-11."""
    return H1 * min(1.0, min_pair_distance(X))


# pair distances swept by the pair-potential streams (Angstrom): compressed, around 0.5, bonded, long range
PAIR_SWEEP = [0.27, 0.3, 0.4, 0.48, 0.52, 0.7, 1.0, 1.6, 2.5, 4.0, 6.0]


def geometry_with_pair(rs, n, d, floor=0.25):
    """Random geometry of n atoms in which atoms (0,1)-permuted pair (i, j) is exactly d apart and every other pair is
    at least `floor` apart.  -> (X, i, j)"""
    for _ in range(400):
        X = rand_geometry(rs, n, dmin=0.6) * rs.choice([0.6, 1.0, 1.0, 1.8])
        if n == 1:
            return X, 0, 0
        i, j = rs.choice(n, 2, replace=False)
        u = rs.normal(size=3)
        u /= np.linalg.norm(u)
        X[j] = X[i] + d * u
        D = dist_matrix(X) + 1e9 * np.eye(n)
        D[i, j] = D[j, i] = 1e9
        if D.min() >= floor:
            return X, int(i), int(j)
    raise RuntimeError("geometry_with_pair")


def idpp_case_specs(ctx, rs, full):
    """Yield (tag, list of image coordinate arrays, image index, wanted_for_coq)."""
    rng = ctx.rng
    # (a) ordinary, well separated images
    for c in range(40 if full else 5):
        n, nimg = (3 if c == 0 else rng.choice([2, 3, 4, 5])), rng.choice([2, 3, 4, 6])
        coords = [rand_geometry(rs, n) for _ in range(nimg)]
        yield "ordinary", coords, (1 if nimg > 2 else rng.randrange(nimg)), c == 0
    # (b) one pair of the evaluated image at a prescribed distance, swept from compressed to long range
    for rep in range(8 if full else 1):
        for d in PAIR_SWEEP:
            dd = d * (1.0 + (rs.uniform(-0.04, 0.04) if rep else 0.0))
            coq = rep == 0 and d in (0.4, 0.52)
            n, nimg = (3 if coq else rng.choice([2, 3, 4, 5])), rng.choice([3, 4, 5])
            coords = [rand_geometry(rs, n) for _ in range(nimg)]
            k = rng.randrange(1, nimg)
            coords[k], _, _ = geometry_with_pair(rs, n, dd)
            yield f"pair-at-{d}", coords, k, coq
    # (c) crowded middle images of a linear interpolation in which two atoms pass close to each other (H3-type exchange)
    for rep in range(6 if full else 1):
        for delta in (0.3, 0.45, 0.6, 0.9):
            nimg = rng.choice([3, 5, 7])
            extra = 0 if (rep == 0 and delta == 0.45) else rng.choice([0, 1, 2])
            first = np.array([[0.0, 0, 0], [1.0, 0, 0], [2.0, delta, 0]] + [list(rs.uniform(-3, 3, 3) + [0, 3.5, 0]) for _ in range(extra)])
            last = first.copy()
            last[1], last[2] = [2.0, 0, 0], [1.0, delta, 0]
            jit = rs.normal(scale=0.02, size=first.shape) if rep else 0.0
            coords = [first + q * (last - first) / (nimg - 1) + (jit if 0 < q < nimg - 1 else 0.0) for q in range(nimg)]
            mid = (nimg - 1) // 2
            for k in sorted({mid, max(1, mid - 1)}):
                if min_pair_distance(coords[k]) >= 0.25:
                    yield f"interpolated-crossing-{delta}", coords, k, (rep == 0 and delta == 0.45 and k == mid and extra == 0)
    # (d) expanded geometries
    for c in range(12 if full else 2):
        n, nimg = rng.choice([2, 3, 4]), rng.choice([3, 4])
        yield "expanded", [rand_geometry(rs, n) * rs.uniform(2.0, 3.5) for _ in range(nimg)], 1, False


def check_idpp_case(IDPP, imgs_coords, k, want_model=True):
    n = imgs_coords[0].shape[0]
    imgs = [SimpleNamespace(name=f"img{q}", iteration=0, coordinates=np.array(c, float)) for q, c in enumerate(imgs_coords)]
    idpp = IDPP(imgs)
    im = imgs[k]
    E, G = float(idpp(im)), np.array(idpp.grad(im), float)
    x0 = im.coordinates.flatten()

    def f(y):
        return float(idpp(SimpleNamespace(name=im.name, iteration=0, coordinates=y.reshape(n, 3))))
    fd = FD()
    fd.gradient(f, x0, G.flatten(), what="IDPP.grad", h=fd_step(x0))
    # rigid motion of the evaluated image (targets r^k are fixed numbers): value invariant, gradient co-rotates
    rs_ = np.random.RandomState(int(abs(x0[0]) * 1e6) % (2 ** 31))
    R, t = rand_rotation(rs_), rs_.uniform(-3, 3, size=3)
    im_r = SimpleNamespace(name=im.name, iteration=0, coordinates=im.coordinates @ R.T + t)
    idpp_r = IDPP(imgs)          # a fresh object: no history
    E_r, G_r = float(idpp_r(im_r)), np.array(idpp_r.grad(im_r), float)
    if abs(E_r - E) > 1e-9 * max(1.0, abs(E)) or not np.allclose(G_r, G @ R.T, rtol=1e-8, atol=1e-8 * max(1.0, np.abs(G).max())):
        fd.bad.append({"what": "IDPP value / gradient change under a rigid motion of the image", "value": E, "moved": E_r,
                       "max_gradient_difference": float(np.abs(G_r - G @ R.T).max())})
    info = {"X": im.coordinates.tolist(), "C": np.array(idpp._req_distance_matrix(im)).tolist(),
            "R": np.array(idpp._distance_matrix(im)).tolist(), "E": E, "G": G.tolist(), "n": n}
    return fd, info


def make_real_images(coords):
    """neb.original.Images built from real species (as the package does); falls back to attribute mocks."""
    try:
        from autode.atoms import Atom
        from autode.species.molecule import Molecule
        from autode.values import ForceConstant
        from autode.neb.original import Images
        images = Images(init_k=ForceConstant(0.1))
        for x in coords:
            images.append_species(Molecule(atoms=[Atom("H", *map(float, xi)) for xi in x]))
        return images, True
    except Exception:   # noqa: BLE001
        return [SimpleNamespace(name=f"img{q}", iteration=0, coordinates=np.array(c, float)) for q, c in enumerate(coords)], False


def check_idpp_sequence(IDPP, coords, k, geoms, ops):
    """One IDPP object, one image k: perform ops = [("call"|"grad", geometry index), ...] moving the image's coordinates
    between geometries WITHOUT any other change; every result must equal a fresh IDPP/image evaluation at the current
    geometry, and every gradient the finite differences of (fresh) __call__ there.  -> list of failures"""
    n = np.asarray(coords[0]).shape[0]
    images, real = make_real_images(coords)
    idpp = IDPP(images)
    image = images[k]
    fails = []

    def fresh(x):
        im2, _ = make_real_images(coords)
        i2 = IDPP(im2)
        im2[k].coordinates = np.array(x, float).reshape(n, 3)
        return i2, im2[k]

    def fval(y):
        i2, img = fresh(y)
        return float(i2(img))
    for step, (op, gi) in enumerate(ops):
        x = np.array(geoms[gi], float)
        image.coordinates = x.reshape(n, 3).copy()
        i2, img2 = fresh(x)
        if op == "call":
            got, want = float(idpp(image)), float(i2(img2))
            if abs(got - want) > 1e-10 * max(1.0, abs(want)):
                fails.append({"what": "IDPP.__call__ depends on what was evaluated before", "step": step, "op": op, "geometry": gi,
                              "got": got, "fresh_object": want})
        else:
            got = np.array(idpp.grad(image), float).flatten()
            want = np.array(i2.grad(img2), float).flatten()
            if not np.allclose(got, want, rtol=1e-10, atol=1e-10):
                i_ = int(np.argmax(np.abs(got - want)))
                fails.append({"what": "IDPP.grad depends on what was evaluated before", "step": step, "op": op, "geometry": gi,
                              "index": [i_], "got": float(got[i_]), "fresh_object": float(want[i_])})
            fd = FD()
            fd.gradient(fval, x.flatten(), got, what=f"IDPP.grad at step {step} (geometry {gi}) vs finite differences of __call__ there",
                        h=fd_step(x))
            fails += fd.bad[:3]
    return fails, real


def stream_idpp_sequences(ctx, full):
    from autode.neb.idpp import IDPP
    rng = ctx.rng
    rs = np.random.RandomState(rng.randrange(2 ** 31))
    nfind = 0
    patterns = [[("call", 0), ("grad", 1)], [("grad", 0), ("call", 1), ("grad", 1)], [("call", 0), ("call", 1), ("grad", 1)],
                [("grad", 0), ("grad", 1)], [("call", 0), ("grad", 0), ("grad", 1), ("call", 2), ("grad", 2)],
                [("call", 0), ("grad", 1), ("call", 1), ("grad", 0)]]
    for rep in range(5 if full else 1):
        for ops in patterns:
            n, nimg = rng.choice([3, 4, 5]), rng.choice([3, 4, 5])
            coords = [rand_geometry(rs, n) for _ in range(nimg)]
            k = rng.randrange(1, nimg)
            base = coords[k]
            geoms = [base] + [base + rs.uniform(-0.2, 0.2, size=base.shape) for _ in range(2)]
            rep_ = {"kind": "idpp-seq", "images": [c_.tolist() for c_ in coords], "k": k, "geometries": [g_.tolist() for g_ in geoms],
                    "ops": [list(o) for o in ops]}
            ctx.count("idpp-seq", (json.dumps(ops), n, nimg, k, base.round(5).tolist()), sample={"ops": ops, "n_atoms": n, "image": k})
            fails, real = check_idpp_sequence(IDPP, coords, k, geoms, ops)
            ctx.hist("idpp-seq", "real neb.original.Image" if real else "attribute mock")
            if fails:
                rep_["failures"] = fails[:6]
                f0 = fails[0]
                nfind += report(ctx, "idpp|sequence", f"IDPP on one image, operations {ops} (coordinates moved between geometries): "
                                f"{f0['what']} {json.dumps({k_: v_ for k_, v_ in f0.items() if k_ != 'what'})}", rep_)
    return nfind


def check_pic_sequence(P, prim_specs, geoms, singular=None):
    """One AnyPIC object: B matrices requested at successive geometries must each stay equal to the stacked
    Primitive.derivative at the geometry they were requested for, whatever is requested afterwards (also when a later
    request raises at a singular geometry).  -> failures"""
    from autode.opt.coordinates.internals import AnyPIC
    pic = AnyPIC(*[make_primitive(P, c_, k_) for c_, k_ in prim_specs])
    fails, held = [], []
    for gi, X in enumerate(geoms):
        x = np.array(X, float).flatten()
        B = pic.get_B(x)
        want = np.array([np.asarray(make_primitive(P, c_, k_).derivative(x), float) for c_, k_ in prim_specs])
        if not np.allclose(np.asarray(B, float), want, rtol=1e-12, atol=1e-12):
            fails.append({"what": "PIC.get_B row is not Primitive.derivative at the requested geometry", "geometry": gi})
        held.append((gi, B, want))
        fd = FD()
        fd.gradient(lambda y: float(pic(y)[0]), x, np.asarray(B, float)[0], what=f"PIC.get_B row 0 at geometry {gi} vs finite differences of PIC.__call__")
        fails += fd.bad[:2]
    if singular is not None:
        try:
            pic.get_B(np.array(singular, float).flatten())
        except Exception:   # noqa: BLE001  expected: singular geometry
            pass
    for gi, B, want in held:
        if not np.allclose(np.asarray(B, float), want, rtol=1e-12, atol=1e-12):
            i_ = np.unravel_index(int(np.argmax(np.abs(np.asarray(B, float) - want))), want.shape)
            fails.append({"what": "a B matrix returned earlier was changed by a later PIC.get_B call", "geometry": gi,
                          "index": [int(i_[0]), int(i_[1])], "now": float(np.asarray(B, float)[i_]), "derivative_at_its_geometry": float(want[i_])})
    return fails


def stream_pic_sequences(ctx, P, full):
    rng = ctx.rng
    rs = np.random.RandomState(rng.randrange(2 ** 31))
    nfind = 0
    for rep in range(6 if full else 2):
        n = 5
        for _ in range(100):
            X = rand_geometry(rs, n)
            if 25 < math.degrees(angle(X[0], X[1], X[2])) < 155 and 35 < math.degrees(angle(X[1], X[2], X[3])) < 145:
                break
        specs = [("PrimitiveDistance", {"i": 0, "j": 1}), ("PrimitiveBondAngle", {"m": 0, "o": 1, "n": 2}),
                 ("PrimitiveDihedralAngle", {"m": 0, "o": 1, "p": 2, "n": 3}), ("PrimitiveInverseDistance", {"i": 2, "j": 4})]
        geoms = [X] + [X + rs.uniform(-0.15, 0.15, size=X.shape) for _ in range(2)]
        sing = X.copy()
        sing[2] = sing[1] + 1.3 * (sing[1] - sing[0]) / np.linalg.norm(sing[1] - sing[0])     # exactly linear 0-1-2
        rep_ = {"kind": "pic-seq", "primitives": [[c_, k_] for c_, k_ in specs], "geometries": [g_.tolist() for g_ in geoms],
                "singular": sing.tolist() if rep % 2 else None}
        ctx.count("pic-seq", (rep, X.round(5).tolist()), sample={"n_primitives": len(specs), "geometries": len(geoms),
                                                                 "then_singular_request": bool(rep % 2)})
        fails = check_pic_sequence(P, specs, geoms, sing if rep % 2 else None)
        if fails:
            rep_["failures"] = fails[:6]
            nfind += report(ctx, "pic|get_B-sequence", f"AnyPIC.get_B at {len(geoms)} successive geometries: {fails[0]['what']} "
                            f"{json.dumps({k_: v_ for k_, v_ in fails[0].items() if k_ != 'what'})}", rep_)
    return nfind


def cconf_case_specs(ctx, rs, full):
    rng = ctx.rng
    for c in range(40 if full else 5):
        yield "ordinary", rand_geometry(rs, 3 if c == 0 else rng.choice([2, 3, 4, 5, 6])), None, c == 0
    for rep in range(8 if full else 1):
        for d in PAIR_SWEEP:
            dd = d * (1.0 + (rs.uniform(-0.04, 0.04) if rep else 0.0))
            coq = rep == 0 and d in (0.3, 0.7)
            X, i, j = geometry_with_pair(rs, 3 if coq else rng.choice([2, 3, 4, 5]), dd)
            yield f"pair-at-{d}", X, (i, j), coq
    for c in range(12 if full else 2):
        yield "expanded", rand_geometry(rs, rng.choice([2, 3, 4])) * rs.uniform(2.0, 3.5), None, False


def check_cconf_case(cconf_gen, X, bm, d0, kk, cc, ex, fixed=None):
    n = len(X)
    x0 = np.asarray(X, float).flatten()
    empty = np.array([], dtype=int)
    f = lambda y: float(cconf_gen.v(y, bm, kk, d0, cc, ex))   # noqa: E731
    G = np.array(cconf_gen.dvdr(x0, bm, kk, d0, cc, ex, empty), float)
    fd = FD()
    fd.gradient(f, x0, G, what="cconf_gen.dvdr", h=fd_step(x0))
    rs_ = np.random.RandomState(int(abs(x0[0]) * 1e6) % (2 ** 31))
    R, t = rand_rotation(rs_), rs_.uniform(-3, 3, size=3)
    xr = (np.asarray(X, float) @ R.T + t).flatten()
    E0, Er = f(x0), f(xr)
    Gr = np.array(cconf_gen.dvdr(xr, bm, kk, d0, cc, ex, empty), float).reshape(n, 3)
    if abs(Er - E0) > 1e-9 * max(1.0, abs(E0)) or not np.allclose(Gr, G.reshape(n, 3) @ R.T, rtol=1e-8, atol=1e-8 * max(1.0, np.abs(G).max())):
        fd.bad.append({"what": "cconf_gen value / gradient change under a rigid motion", "value": E0, "moved": Er})
    if fixed is not None:
        Gf = np.array(cconf_gen.dvdr(x0, bm, kk, d0, cc, ex, fixed), float).reshape(n, 3)
        free = [i for i in range(n) if i not in set(fixed.tolist())]
        if np.any(Gf[fixed] != 0.0) or not np.array_equal(Gf[free], G.reshape(n, 3)[free]):
            fd.bad.append({"what": "dvdr with fixed atoms is not the gradient with the fixed rows zeroed", "fixed": fixed.tolist()})
    return fd, f(x0), G


def stream_pairs(ctx, full, coq_full=None):
    coq_full = full if coq_full is None else coq_full
    from autode.neb.idpp import IDPP
    import cconf_gen
    nfind = 0
    terms, descr = [], []
    rs = np.random.RandomState(ctx.rng.randrange(2 ** 31))
    ncoq = 0
    for tag, coords, k, want_coq in idpp_case_specs(ctx, rs, full):
        n, nimg = coords[0].shape[0], len(coords)
        rmin = min_pair_distance(coords[k])
        rep = {"kind": "idpp", "images": [np.asarray(c_).tolist() for c_ in coords], "k": k, "tag": tag, "closest_pair": rmin}
        ctx.count("idpp", (tag, n, nimg, k, np.asarray(coords[k]).round(5).tolist()),
                  sample={"tag": tag, "n_atoms": n, "n_images": nimg, "image": k, "closest_pair": round(rmin, 3)})
        ctx.hist("idpp", tag.split("-at-")[0].split("-crossing-")[0] + (" r<0.5" if rmin < 0.5 else ""))
        fd, info = check_idpp_case(IDPP, coords, k)
        if fd.unstable:
            ctx.hist("idpp", "fd-unstable-entries-skipped")
        if fd.bad:
            rep["failures"] = fd.bad[:6]
            key = "idpp|rigid-motion" if "rigid" in fd.bad[0]["what"] else "idpp|grad-vs-call"
            nfind += report(ctx, key, f"IDPP with {n} atoms, image {k} of {nimg} [{tag}, closest pair {rmin:.3f} A]: {fd.bad[0]['what']} "
                            f"{json.dumps({k_: v_ for k_, v_ in fd.bad[0].items() if k_ != 'what'})}", rep)
        if n <= (4 if coq_full else 3) and (want_coq or (coq_full and ncoq < 40)):
            ncoq += 1
            terms.append(f"check_idpp {n} {qc_mat(info['X'])} {qc_mat(info['C'])} {qc_mat(info['R'])} {qc(info['E'])} {qc_mat(info['G'])}")
            descr.append(rep)
            ctx.count("pairs-qc", ("idpp", tag, n, nimg, k, np.asarray(coords[k]).round(5).tolist()))
    # the pair theorems assume symmetric parameter matrices: the package's own builder of the bond matrix must give one
    from autode.conformers.conf_gen import _get_bond_matrix
    for c_ in range(20 if full else 4):
        n = ctx.rng.choice([3, 5, 8])
        prs = [tuple(ctx.rng.sample(range(n + 1), 2)) for _ in range(n)]
        bmx = _get_bond_matrix(n_atoms=n, bonds=prs[: n // 2 + 1], fixed_bonds=prs[n // 2 + 1:])
        ctx.count("cconf", ("bond-matrix", n, prs), nontrivial=False)
        if not np.array_equal(bmx, bmx.T) or bmx.dtype != np.intc:
            nfind += report(ctx, "cconf|bond-matrix-asymmetric", f"_get_bond_matrix({n}, {prs}) is not a symmetric intc matrix: calc_energy reads "
                            f"the lower and calc_deriv both triangles", {"kind": "bond-matrix", "n": n, "bonds": prs})
    ncoq = 0
    for tag, X, pair, want_coq in cconf_case_specs(ctx, rs, full):
        n = len(X)
        bm = np.zeros((n, n), dtype=np.intc)
        for i in range(n):
            for j in range(i):
                bm[i, j] = bm[j, i] = ctx.rng.choice([0, 0, 1, 1, 2])
        if pair is not None and pair[0] != pair[1]:
            bm[pair[0], pair[1]] = bm[pair[1], pair[0]] = ctx.rng.choice([0, 1, 2])   # the swept pair: free, bonded or fixed
        d0 = rs.uniform(0.9, 2.0, size=(n, n))
        d0 = (d0 + d0.T) / 2
        kk, cc, ex = ctx.rng.choice([0.5, 1.0, 2.5]), ctx.rng.choice([0.01, 0.3, 0.8]), ctx.rng.choice([2, 3, 4, 5, 8])
        rmin = min_pair_distance(X)
        fixed = np.array(sorted(ctx.rng.sample(range(n), ctx.rng.randrange(0, n))), dtype=int)
        rep = {"kind": "cconf", "coords": np.asarray(X).tolist(), "bond_matrix": bm.tolist(), "d0": d0.tolist(), "k": kk, "c": cc,
               "exponent": ex, "tag": tag, "closest_pair": rmin}
        ctx.count("cconf", (tag, n, kk, cc, ex, np.asarray(X).round(5).tolist()),
                  sample={"tag": tag, "n_atoms": n, "k": kk, "c": cc, "exponent": ex, "closest_pair": round(rmin, 3)})
        ctx.hist("cconf", tag.split("-at-")[0] + (" r<0.5" if rmin < 0.5 else ""))
        fd, E, G = check_cconf_case(cconf_gen, X, bm, d0, kk, cc, ex, fixed)
        if fd.unstable:
            ctx.hist("cconf", "fd-unstable-entries-skipped")
        if fd.bad:
            rep["failures"] = fd.bad[:6]
            nfind += report(ctx, "cconf|rigid-motion" if "rigid" in fd.bad[0]["what"] else "cconf|dvdr-vs-v", f"cconf_gen with {n} atoms, exponent {ex} [{tag}, closest pair {rmin:.3f} A]: {fd.bad[0]['what']} "
                            f"{json.dumps({k_: v_ for k_, v_ in fd.bad[0].items() if k_ != 'what'})}", rep)
        if n <= (4 if coq_full else 3) and (want_coq or (coq_full and ncoq < 40)):
            ncoq += 1
            Km = np.where(bm == 1, kk, np.where(bm == 2, 10.0, 0.0))
            Cm = np.full((n, n), cc)
            terms.append(f"check_ff {n} {ex} {qc_mat(np.asarray(X).tolist())} {qc_mat(Cm.tolist())} {qc_mat(Km.tolist())} {qc_mat(d0.tolist())} "
                         f"{qc_mat(dist_matrix(np.asarray(X)).tolist())} {qc(E)} {qc_mat(G.reshape(n, 3).tolist())}")
            descr.append(rep)
            ctx.count("pairs-qc", ("cconf", tag, n, kk, cc, ex, np.asarray(X).round(5).tolist()))
    return nfind, terms, descr


def rb_energy(X, bonded, r0, k, c, ex):
    e = 0.0
    n = len(X)
    for i in range(n):
        for j in range(i + 1, n):
            r = np.linalg.norm(X[i] - X[j])
            e += c[i, j] / r ** ex
            if bonded[i, j]:
                e += k[i, j] * (r - r0[i, j]) ** 2
    return e


def rb_mirror_energy(X, bonds, r0, k, c, ex):
    """RBPotential::set_energy (potentials.cpp:251-276): unique pairs j > i, upper-triangle parameters, r from
    Molecule::distance (molecule.cpp:41-75)."""
    n, e = len(X), 0.0
    for i in range(n):
        for j in range(i + 1, n):
            d = X[i] - X[j]
            r = math.sqrt(d[0] * d[0] + d[1] * d[1] + d[2] * d[2])
            e += c[i, j] / math.pow(r, ex)
            if bonds[i, j]:
                e += k[i, j] * math.pow(r - r0[i, j], 2)
    return e


def rb_mirror_energy_grad(X, bonds, r0, k, c, ex):
    """RBPotential::set_energy_and_grad (potentials.cpp:278-336), operation by operation."""
    n = len(X)
    g, e = np.zeros((n, 3)), 0.0
    for i in range(n):
        for j in range(n):
            if i == j:
                continue
            d = X[i] - X[j]
            r = math.sqrt(d[0] * d[0] + d[1] * d[1] + d[2] * d[2])
            e_rep = c[i, j] / math.pow(r, ex)
            e += 0.5 * e_rep
            g[i] += -(e_rep * float(ex) / math.pow(r, 2)) * d
            if bonds[i, j]:
                e += 0.5 * k[i, j] * math.pow(r - r0[i, j], 2)
                g[i] += (2.0 * k[i, j] * (1.0 - r0[i, j] / r)) * d
    return e, g


def rb_mirror_opt(X0, bonds, r0, k, c, ex, max_iter=500, tol=1e-6, init_step=0.3):
    """SDOptimiser::run (optimisers.cpp:38-113) as called by ade_rb_opt.opt_rb_coords (500, 1E-6, 0.3).
    -> (final coordinates, smallest relative margin of any accept/reject decision)"""
    X = np.array(X0, float)
    mol_e, curr, it, margin = 0.0, 99999999.9, 0, 1.0
    while abs(mol_e - curr) > tol and it <= max_iter:
        margin = min(margin, abs(abs(mol_e - curr) - tol) / tol)
        curr, micro, step = mol_e, 0, init_step
        mol_e, g = rb_mirror_energy_grad(X, bonds, r0, k, c, ex)
        while micro < 20:
            cme = mol_e
            X = X - step * g
            mol_e = rb_mirror_energy(X, bonds, r0, k, c, ex)
            if step < 1e-3:
                break
            margin = min(margin, abs(mol_e - cme) / max(1.0, abs(cme)))
            if micro == 0 and mol_e > cme:
                X = X + step * g
                mol_e = cme
                step *= 0.5
                continue
            if mol_e > cme:
                X = X + step * g
                break
            micro += 1
        it += 1
    margin = min(margin, abs(abs(mol_e - curr) - tol) / tol)
    return X, margin


def rb_case(ctx, rs, n):
    X = rand_geometry(rs, n, dmin=0.9)
    bonds = np.zeros((n, n), dtype=bool)
    for i in range(n - 1):
        bonds[i, i + 1] = bonds[i + 1, i] = True
    if n > 3 and ctx.rng.random() < 0.5:
        bonds[0, n - 1] = bonds[n - 1, 0] = True
    sym = lambda M: (M + M.T) / 2     # noqa: E731  (distance / force-constant matrices are symmetric by meaning)
    r0 = np.where(bonds, sym(rs.uniform(1.0, 1.6, size=(n, n))), 0.0)
    k = sym(rs.uniform(0.5, 2.0, size=(n, n)))
    c = sym(rs.uniform(0.1, 1.0, size=(n, n))) * (1.0 if ctx.rng.random() < 0.3 else (1.0 - bonds))
    return X, bonds, r0, k, c, ctx.rng.choice([2, 3, 4, 6])


def check_rb_case(ade_rb_opt, X, bonds, r0, k, c, ex, rs):
    """No public entry point returns RBPotential's energy or gradient: opt_rb_coords only returns the minimised
    coordinates.  What CAN be checked: (1) the hand mirror of set_energy / set_energy_and_grad (same operations) is the
    pair model - gradient = ff_coef-formula, = finite differences of the mirrored energy; (2) the compiled minimiser is a
    deterministic function of exactly those two routines, so its result must coincide with the mirror of SDOptimiser::run
    driven by the mirrored energy and gradient (every step is step_size * gradient, every accept/reject compares energies);
    (3) the result is equivariant under rigid motion.  Cases in which an accept/reject decision is closer than 1e-9 are
    skipped (rounding could flip it)."""
    n = len(X)
    fails = []
    e1, g = rb_mirror_energy_grad(X, bonds, r0, k, c, ex)
    e0 = rb_mirror_energy(X, bonds, r0, k, c, ex)
    gm = np.zeros((n, 3))
    for i in range(n):
        for j in range(n):
            if i != j:
                r = np.linalg.norm(X[i] - X[j])
                gm[i] += (-(ex * c[i, j] / r ** (ex + 2)) + 2.0 * (k[i, j] if bonds[i, j] else 0.0) * (1.0 - r0[i, j] / r)) * (X[i] - X[j])
    if not np.allclose(g, gm, rtol=1e-10, atol=1e-10) or abs(e1 - e0) > 1e-10 * max(1.0, abs(e0)):
        fails.append({"what": "mirror of RBPotential differs from the pair model ff_term / ff_coef"})
    fd = FD()
    fd.gradient(lambda y: rb_mirror_energy(y.reshape(n, 3), bonds, r0, k, c, ex), X.flatten(), g.flatten(),
                what="RBPotential gradient (mirror) vs finite differences of its energy", h=fd_step(X))
    fails += fd.bad[:2]
    Y = np.array(ade_rb_opt.opt_rb_coords(X.copy(), bonds, r0, k, c, ex), float)
    Ym, margin = rb_mirror_opt(X, bonds, r0, k, c, ex)
    if margin < 1e-9:
        return fails, "decision-margin-skipped"
    if not np.all(np.isfinite(Y)) or np.abs(Y - Ym).max() > 1e-7:
        i_ = np.unravel_index(int(np.argmax(np.abs(Y - Ym))), Y.shape)
        fails.append({"what": "opt_rb_coords differs from steepest descent with the modelled RBPotential energy and gradient",
                      "index": [int(i_[0]), int(i_[1])], "compiled": float(Y[i_]), "model": float(Ym[i_]),
                      "max_difference": float(np.abs(Y - Ym).max())})
    R, t = rand_rotation(rs), rs.uniform(-2, 2, size=3)
    Xr = X @ R.T + t
    _, margin_r = rb_mirror_opt(Xr, bonds, r0, k, c, ex)
    if margin_r >= 1e-9:
        Yr = np.array(ade_rb_opt.opt_rb_coords(Xr.copy(), bonds, r0, k, c, ex), float)
        if np.abs(Yr - (Y @ R.T + t)).max() > 1e-6:
            fails.append({"what": "opt_rb_coords is not equivariant under a rigid motion of the input",
                          "max_difference": float(np.abs(Yr - (Y @ R.T + t)).max())})
    return fails, "compared"


def stream_cpp(ctx, full):
    """C++ RBPotential through its only public entry point (see check_rb_case).  The dihedral potentials
    (RDihedralPotential / RRingDihedralPotential) have NO analytic derivative - their gradient is a forward difference
    inside the C++ code (potentials.cpp:121-141) - so the property has nothing to say about them; what the minimiser does
    with them is only histogrammed."""
    import ade_rb_opt
    import ade_dihedrals
    nfind = 0
    rs = np.random.RandomState(ctx.rng.randrange(2 ** 31))
    for c_ in range(40 if full else 8):
        n = ctx.rng.choice([3, 4, 5, 6])
        X, bonds, r0, k, cm, ex = rb_case(ctx, rs, n)
        ctx.count("cpp-rb", (n, ex, X.round(5).tolist()), sample={"n_atoms": n, "exponent": ex})
        rep = {"kind": "cpp-rb", "coords": X.tolist(), "bonded": bonds.tolist(), "r0": r0.tolist(), "k": k.tolist(), "c": cm.tolist(),
               "exponent": ex}
        fails, outcome = check_rb_case(ade_rb_opt, X, bonds, r0, k, cm, ex, rs)
        ctx.hist("cpp-rb", outcome)
        for fl in fails[:2]:
            rep["failures"] = fails[:4]
            key = "cpp-rb|" + ("trajectory" if "opt_rb_coords differs" in fl["what"] else "rigid-motion" if "equivariant" in fl["what"] else "mirror")
            nfind += report(ctx, key, f"RBPotential ({n} atoms, exponent {ex}): {fl['what']} "
                            f"{json.dumps({k_: v_ for k_, v_ in fl.items() if k_ != 'what'})}", rep)
    for c_ in range(10 if full else 2):
        n = ctx.rng.choice([4, 5, 6])
        X = np.zeros((n, 3))
        for i in range(1, n):
            d = rs.normal(size=3)
            X[i] = X[i - 1] + 1.5 * d / np.linalg.norm(d)
        if (dist_matrix(X) + 10 * np.eye(n)).min() < 0.9:
            continue
        axes, rot, origins = np.array([[1, 2]], dtype="i4"), np.zeros((1, n), dtype=bool), np.array([2], dtype="i4")
        rot[0, 3:] = True
        Erep = lambda Z: sum(1.0 / dist_matrix(Z)[i, j] ** 2 for i in range(n) for j in range(i + 1, n))   # noqa: E731
        Y = np.array(ade_dihedrals.rotate(X.copy(), np.array([0.0]), axes, rot, origins, rep_exponent=2, minimise=True), float)
        ctx.count("cpp-dihedral", (n, X.round(5).tolist()), nontrivial=False, sample={"n_atoms": n})
        ctx.hist("cpp-dihedral", "repulsion lowered" if Erep(Y) <= Erep(X) + 1e-9 else "repulsion raised")
    return nfind


def stream_singular(ctx, P):
    """Malformed stream: geometries at which the coordinate itself is singular.  The property says nothing about them;
    what the implementation does (raise / non-finite / finite numbers) is histogrammed into evidence."""
    cases = [
        ("PrimitiveDistance", {"i": 0, "j": 1}, [[0, 0, 0], [0, 0, 0], [1, 0, 0]], "coincident atoms"),
        ("PrimitiveInverseDistance", {"i": 0, "j": 1}, [[0, 0, 0], [0, 0, 0], [1, 0, 0]], "coincident atoms"),
        ("PrimitiveBondAngle", {"m": 0, "o": 1, "n": 2}, [[-1, 0, 0], [0, 0, 0], [1.5, 0, 0]], "linear angle"),
        ("PrimitiveBondAngle", {"m": 0, "o": 1, "n": 2}, [[1, 0, 0], [0, 0, 0], [1.5, 0, 0]], "zero angle"),
        ("PrimitiveDihedralAngle", {"m": 0, "o": 1, "p": 2, "n": 3}, [[-1, 0, 0], [0, 0, 0], [1, 0, 0], [2, 0, 0]], "collinear chain"),
        ("PrimitiveLinearAngle", {"m": 0, "o": 1, "n": 2, "r": 3, "axis": "BEND"}, [[-1, 0, 0], [0, 0, 0], [1, 0, 0], [2, 0, 0]],
         "reference atom on the axis"),
        ("CompositeBonds", {"bonds": [[0, 1]], "coeffs": [2.0]}, [[0, 0, 0], [0, 0, 0]], "coincident atoms"),
    ]
    for cls, kw, X, tag in cases:
        x = np.array(X, float).flatten()
        for what in ("__call__", "derivative", "second_derivative"):
            try:
                r = getattr(make_primitive(P, cls, kw), what)(x)
                out = "finite" if np.all(np.isfinite(r)) else "non-finite"
            except Exception as e:   # noqa: BLE001
                out = "raises " + type(e).__name__
            ctx.count("singular", (cls, tag, what), nontrivial=False)
            ctx.hist("singular", f"{cls}.{what} [{tag}]: {out}")


def observations(ctx, A):
    """Edge behaviour recorded in evidence but not part of the claim (see ASSUMPTIONS)."""
    obs = []
    for k in (0, 1, 2):
        x = A.VectorHyperDual.from_variable(0.0, "x", ["x"], A.DerivativeOrder.second)
        try:
            r = x ** k
            obs.append({"expr": f"x**{k} at x=0", "result": [r.value, float(r._first_der[0]), float(r._second_der[0, 0])]})
        except Exception as e:   # noqa: BLE001
            obs.append({"expr": f"x**{k} at x=0", "raises": f"{type(e).__name__}: {e}"})
    ctx.cov["observations"] = obs
    for o in obs:
        if "raises" in o:
            ctx.log("observation (not a finding):", o["expr"], "raises", o["raises"])


# =============================================================================================
def load_modules():
    sys.path.insert(0, REPO)
    import autode.opt.coordinates._autodiff as A
    import autode.opt.coordinates.primitives as P
    if not os.path.realpath(A.__file__).startswith(os.path.realpath(REPO)):
        raise RuntimeError(f"autode imported from {A.__file__}, not from {REPO}")
    return A, P


def impl_oracles(ctx, A, P, tinfo, full, boost=False):
    """boost: a source pin changed - the cheap implementation streams run at thorough size also in the quick tier."""
    coq = {}
    nfind = 0
    n, t, d = stream_trees(ctx, A, full)
    nfind += n
    coq["trees-qc"] = (t, d)
    ctx.log(f"expression trees: {n} failures")
    n = stream_stationary(ctx, A, full or boost)
    nfind += n
    ctx.log(f"products with an exactly stationary factor: {n} failures")
    n = stream_atan2_band(ctx, A, full or boost)
    nfind += n
    ctx.log(f"atan2 trees around +-pi/2: {n} failures")
    if tinfo is not None:
        n = stream_triples(ctx, A, tinfo)
        nfind += n
        ctx.log(f"translated triples vs DifferentiableMath: {n} failures")
    n, t, d = stream_primitives(ctx, P, full)
    nfind += n
    coq["placement-qc"] = (t, d)
    ctx.log(f"primitives: {n} failures")
    n, t, d = stream_pairs(ctx, full or boost, coq_full=full)
    nfind += n
    coq["pairs-qc"] = (t, d)
    ctx.log(f"IDPP / cconf_gen: {n} failures")
    n = stream_idpp_sequences(ctx, full or boost)
    nfind += n
    ctx.log(f"IDPP call/grad sequences on one image: {n} failures")
    n = stream_pic_sequences(ctx, P, full or boost)
    nfind += n
    ctx.log(f"PIC.get_B sequences on one object: {n} failures")
    n = stream_cpp(ctx, full)
    nfind += n
    ctx.log(f"C++ minimisers: {n} failures")
    stream_singular(ctx, P)
    observations(ctx, A)
    return nfind, coq


def first_errors(log):
    """`File ...` lines that are followed by an Error (not by a Warning), with the error's first line."""
    lines = log.splitlines()
    out = []
    for i, ln in enumerate(lines):
        if ln.startswith("File ") and i + 1 < len(lines) and lines[i + 1].startswith("Error"):
            out.append(ln.strip() + " " + " ".join(x.strip() for x in lines[i + 1:i + 3]))
    return out[:3]


def run(ctx):
    full = not ctx.quick
    pins_changed = source_pins(ctx.pid, PINS) + text_pins_changed()
    ctx.cov["source_pins"] = {"pinned": len(PINS) + len(TEXT_PINS), "changed": pins_changed}
    if pins_changed:
        ctx.log("source pins changed:", ", ".join(pins_changed), "- the cheap implementation streams run at thorough size")
    A, P = load_modules()
    # 1. regenerate the model from the source
    rc, out = sh(["python3", f"{VERIF}/tr/translate_c07.py", "--json"], timeout=120)
    ctx.log("translator:", out.strip()[:200])
    translated = rc == 0
    tinfo = None
    if translated:
        try:
            tinfo = json.loads([ln for ln in out.splitlines() if ln.startswith("JSON:")][0][5:])
        except Exception:   # noqa: BLE001
            translated = False
    ctx.cov["translator"] = {"ok": translated, "output": out.strip()[:600] if not translated else
                             {"sha256": tinfo["sha256"], "definitions": tinfo["definitions"], "domains": tinfo["domains"]}}
    # 2. proofs over the regenerated model
    info = {"hygiene": [], "log_tail": out, "build_ok": False}
    proofs_ok = False
    if translated:
        proofs_ok, info = ctx.proofs(SLICE, "C07/Props.v", "AV.C07.Props", extra_targets=["C07/Corr.vo"])
        ctx.log("proofs:", "ok" if proofs_ok else "BROKEN: " + " | ".join(first_errors(info.get("log_tail", "")) + info["hygiene"][:2]))
        ctx.cov["print_assumptions"] = info.get("assumptions", {})
    else:
        ctx.cov["obligations"] += len(ctx.theorems_in("C07/Props.v"))
        ctx.cov["checker_cmd"] = "translator failed closed; proofs not attempted"
    gen_sha = lambda: (open(os.path.join(COQ, "gen", "C07_Gen.v")).read().split("sha256 = ")[1][:64]      # noqa: E731
                       if os.path.exists(os.path.join(COQ, "gen", "C07_Gen.v")) else "")
    if translated and gen_sha() != tinfo["sha256"]:
        ctx.log("coq/gen/C07_Gen.v was rewritten by a concurrent run on another tree: re-translating and re-building")
        sh(["python3", f"{VERIF}/tr/translate_c07.py"], timeout=120)
        proofs_ok, info = ctx.proofs(SLICE, "C07/Props.v", "AV.C07.Props", extra_targets=["C07/Corr.vo"])
    # 3. the property's own oracles on the implementation (always: they give the concrete replays)
    nfind, coq = impl_oracles(ctx, A, P, tinfo, full, boost=bool(pins_changed))
    # 4. model vs implementation
    corr_bad, corr_err = [], None
    if proofs_ok:
        for stream, (terms, descr) in coq.items():
            if not terms:
                continue
            bad, err = ctx.coq_bad_indices(PRE, terms, per_file={"trees-qc": 12, "placement-qc": 3, "pairs-qc": 2}[stream], name="c07_" + stream.replace("-", "_"))
            corr_bad += [(stream, descr[i], terms[i]) for i in bad]
            ctx.log(f"  stream {stream}: {len(terms)} cases, {len(bad)} disagreements")
            if err:
                corr_err = (corr_err or "") + err
        if (corr_bad or corr_err) and gen_sha() != tinfo["sha256"]:
            ctx.log("coq/gen/C07_Gen.v changed during the run (concurrent check on another tree): correspondence repeated")
            sh(["python3", f"{VERIF}/tr/translate_c07.py"], timeout=120)
            ctx.coq_make(["C07/Corr.vo"])
            corr_bad, corr_err = [], None
            for stream, (terms, descr) in coq.items():
                if terms:
                    bad, err = ctx.coq_bad_indices(PRE, terms, per_file={"trees-qc": 12, "placement-qc": 3, "pairs-qc": 2}[stream],
                                                   name="c07r_" + stream.replace("-", "_"))
                    corr_bad += [(stream, descr[i], terms[i]) for i in bad]
                    corr_err = (corr_err or "") + err if err else corr_err
        ctx.log(f"correspondence: {len(corr_bad)} disagreements" + (f"; coq error {corr_err[:300]}" if corr_err else ""))
        ctx.cov["disagreements"] = len(corr_bad)
    # 5. decide
    if not translated and nfind == 0:
        ctx.violation("the translator failed closed: _autodiff.py contains a construct outside the modelled vocabulary, so the "
                      "theorems no longer speak about the current source (" + out.strip()[-300:] + ")",
                      {"kind": "translator", "output": out[-2000:]}, found_input=False)
    elif not proofs_ok:
        ctx.proof_failure(info, found_any_input=(nfind > 0))
    if corr_bad or corr_err:
        if nfind == 0:
            ctx.violation("model and implementation disagree and no finite-difference oracle failed on the implementation: "
                          + ", ".join(sorted({s for s, _, _ in corr_bad})),
                          {"kind": "correspondence", "first": [{"stream": s, "case": d} for s, d, _ in corr_bad[:4]],
                           "coq_terms": [t[:1500] for _, _, t in corr_bad[:2]], "coq_error": corr_err}, found_input=False)
        else:
            ctx.log("correspondence disagreements explained by the implementation-level findings above")
    if pins_changed and not ctx.violations:
        ctx.violation("hand model no longer pinned to the source: " + ", ".join(pins_changed),
                      {"kind": "source-pin", "changed": pins_changed}, found_input=False)


def replay(ctx, obj):
    A, P = load_modules()
    r = obj.get("replay", {})
    kind = r.get("kind")
    rs = np.random.RandomState(0)
    bad = None
    if kind == "tree":
        bad = check_tree_fd(A, r["tree"], r["x"]).bad
    elif kind == "primitive":
        bad, _, _ = check_primitive(P, r["class"], r["args"], np.array(r["coords"], float), rs, r.get("container", "ndarray"))
    elif kind == "idpp":
        from autode.neb.idpp import IDPP
        fd, _ = check_idpp_case(IDPP, [np.array(c, float) for c in r["images"]], r["k"])
        bad = fd.bad
    elif kind == "idpp-seq":
        from autode.neb.idpp import IDPP
        bad, _ = check_idpp_sequence(IDPP, [np.array(c, float) for c in r["images"]], r["k"],
                                     [np.array(g, float) for g in r["geometries"]], [tuple(o) for o in r["ops"]])
    elif kind == "cpp-rb":
        import ade_rb_opt
        bad, _ = check_rb_case(ade_rb_opt, np.array(r["coords"], float), np.array(r["bonded"], bool), np.array(r["r0"], float),
                               np.array(r["k"], float), np.array(r["c"], float), r["exponent"], rs)
    elif kind == "pic-seq":
        bad = check_pic_sequence(P, [(c_, k_) for c_, k_ in r["primitives"]], [np.array(g, float) for g in r["geometries"]],
                                 None if r.get("singular") is None else np.array(r["singular"], float))
    elif kind == "cconf":
        import cconf_gen
        fd, _, _ = check_cconf_case(cconf_gen, np.array(r["coords"], float), np.array(r["bond_matrix"], dtype=np.intc),
                                    np.array(r["d0"], float), r["k"], r["c"], r["exponent"])
        bad = fd.bad
    else:
        print("replay: this replay names a proof obligation / correspondence stream; re-run ./check C07 to re-evaluate it")
        return 2
    print("replay:", kind, "->", "REPRODUCED" if bad else "not reproduced")
    for b in (bad or [])[:6]:
        print("   ", json.dumps(b))
    return 1 if bad else 0


MANIFEST = {
    "technique": "Coq proof over a model regenerated from source (ast translator) + Coquelicot real analysis + "
                 "model/implementation correspondence + finite-difference oracle on generated expressions and geometries",
    "level_text": ("Machine-checked theorems (coq/C07/Props.v, 15). For every field, every number of variables n and every index pair "
                   "i j: the projection (value, d_i, d_j, d_ij) of the hyper-dual operations TRANSLATED from _autodiff.py "
                   "(+, unary -, -, x product rule, Python-number x hyper-dual, every spelling of /, ** -1, ** 2) into the "
                   "independently defined algebra F[e1,e2]/(e1^2,e2^2) is a homomorphism, Hessian symmetry is preserved by every "
                   "operation, variables are seeded as coordinate functions, and Primitive.derivative/second_derivative put exact "
                   "zeros at every Cartesian index of an atom not involved (closed under the global context). Over R (Coquelicot): "
                   "SOUNDNESS STEP - if the entries (d1 i, d1 j, d2 i j) of hyper-dual families are the first and mixed second "
                   "partial derivatives of their values along e_i, e_j, so are the entries of the result of every translated "
                   "operation (+, -, x, number x, /, ** integer, apply_operation with a correct triple, every DifferentiableMath "
                   "function on its asserted domain, both atan2 branch constructions), starting from seeded variables; for the "
                   "translated (f,f',f'') triples of sqrt, exp, log, acos, atan and pow (real exponent on x>0, integer exponent on "
                   "x<>0, integer exponent >= 2 everywhere) f' is the derivative of f and f'' of f'; the atan2 branch formulas have "
                   "the polar-angle first and second partials; for the pair MODEL (idpp_term / ff_term = the formulas of IDPP, "
                   "cconf_gen and RBPotential) the gradient coefficient is term'(r)/r and - lifted over all pairs, any number of "
                   "atoms - the assembled gradient is the derivative of the energy in every Cartesian component; pair-model "
                   "energies are rigid-motion invariant."),
    "level_note": ("NOT mechanised: the induction over a concrete expression (the soundness step is proved per operation; no "
                   "expression datatype, no primitive's _evaluate tree, no DifferentiableVector3D model), that math.atan2's value "
                   "differs from the differentiated branch by a local constant and that the selected branch is defined "
                   "(atan2_branch_derivatives_partial), rigid-motion invariance of primitive values, hyper-dual ** float at base 0. "
                   "These are exercised every run by central finite differences (h=1e-5 scaled to units / closest pair, tol 1e-6 + "
                   "step sensitivity) over random, stationary-factor and atan2-band expression trees and all 11 concrete primitive "
                   "classes (random, prescribed-dihedral, near-linear, lattice geometries; plain and unit-carrying coordinates). "
                   "IDPP / cconf_gen: the executable code is tied to the pair model by finite differences, 1e-9 correspondence "
                   "with the Coq formulas, call/grad sequences and rigid motions. RBPotential (C++): no entry point exposes its "
                   "energy or gradient; tied only by a pinned hand mirror whose steepest-descent trajectory must equal "
                   "opt_rb_coords (real drills with a rebuilt extension: gradient-factor, exponent and distance mutations caught "
                   "in every compared case). The dihedral potentials have no analytic derivative (numerical inside C++): nothing "
                   "claimed. Trusted: Coq kernel, Coquelicot, real-number + classical axioms (calculus theorems only), the ast "
                   "translator (validated each run against VectorHyperDual over Qc and against DifferentiableMath), the hand "
                   "models / mirrors (source-pinned), evR's reading of math.pow. OPEN FINDINGS on the unchanged tree: "
                   "PrimitiveDummyLinearAngle's value depends on the first geometry its object saw and is not invariant under "
                   "translation or rotation of the same object."),
}
