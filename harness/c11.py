"""C11 — frequencies / normal modes from a Hessian and numerically differentiated Hessians (DESIGN 6/C11).

Tie: gen/C11_Gen.v (formulas and index expressions of autode/hessians.py) and gen/C06_Gen.v (unit table,
conversion) are regenerated from the repository on every run and the theorems of coq/C11/Props.v are
re-checked against them; the hand model of the control flow (coq/C11/Model.v) is run against the
implementation with mock gradient methods (no external program) and compared exactly.  The property
parts that are facts about numpy's eigh / qr (frame independence of the spectrum, completeness of the
projection) are exercised by implementation oracles on analytic bond-network potentials.
"""
import hashlib
import itertools
import math
import os
import re
import sys
from fractions import Fraction

import numpy as np

from common import REPO, VERIF, source_pins, coq_bool, coq_list, coq_nat, coq_string, coq_z, frac, qc, qc_list, qc_mat, sh

sys.path.insert(0, REPO)
import autode as ade  # noqa: E402
from autode.atoms import Atom, Atoms  # noqa: E402
from autode.config import Config  # noqa: E402
from autode.hessians import Hessian, HybridHessianCalculator, NumericalHessianCalculator  # noqa: E402
from autode.values import Distance  # noqa: E402
from autode.wrappers.keywords import KeywordsSet  # noqa: E402
from autode.wrappers.methods import Method  # noqa: E402

KEY_COLUMNS = "HybridHessianCalculator|columns-averaged"

TRUSTED_BASE = [
    "Coq 8.16.1 kernel + coqc (vm_compute only in the refuted-witness / non-vacuity examples and in correspondence; no native_compute)",
    "Print Assumptions: every C11 theorem is closed under the global context (no axioms)",
    "translators tr/translate_c11.py (formulas + index expressions of autode/hessians.py -> gen/C11_Gen.v) and "
    "tr/translate_units.py (unit table / conversion -> gen/C06_Gen.v): Python ast, fail closed; every generated definition is "
    "also run against the implementation by the correspondence streams",
    "hand model coq/C11/Model.v of the calculator state machine, _tr_vecs, mass weighting, mode back-transformation, the cache of "
    "frequencies_proj: tied by exact correspondence with the implementation (all atom subsets, both schemes, n_cores 1/2/4, serial branch "
    "in a child process; check_tr_vecs, check_proj_cols, check_modes, check_twice) and by 40 source pins",
    "of the C06 development only coq/C06/Base.v (record type of a unit) and the generated coq/gen/C06_Gen.v are used",
    "oracles (modelled, not verified): numpy eigh / eigvalsh / qr / sqrt / cross, concurrent.futures process pool, pickle",
    "exact rationals stand for IEEE doubles up to rounding (1e-9 relative in correspondence; inputs are dyadic so the "
    "placement comparison is exact)",
    "the reference spectrum of the implementation oracles (own projector, CODATA constants) in harness/c11.py",
]
ASSUMPTIONS = [
    "PARTIAL: invariance of the eigenvalues / eigenvectors of the projected mass-weighted Hessian under a common rotation, "
    "translation or relabelling is a similarity-transform fact about numpy eigh/qr; it is observed on generated molecules "
    "(2..15 atoms, linear and not, mixed elements, exactly orthogonal rational rotations), not proved",
    "sqrt and pi are parameters of the frequency map (theorems hold for every positive-preserving sqrt); arithmetic is exact over a field",
    "a worker process evaluates a row as the same pure function of (atom, component) as the parent (process-pool transport trusted)",
    "agreement of the numerical with the analytic Hessian 'to the accuracy of the scheme' is checked against bounds "
    "h*max|d3E| (forward) and h^2*max|d4E| (central) estimated from the analytic Hessian, on Morse/harmonic networks",
]
RULE = ("streams (round 3 additions: near-linear chains x all labellings; one Hessian object queried before and after the configured scale factor "
        "changes; copy / deepcopy; stored values untouched by evaluation in all 5 units; Species API sequences incl. copies in all 5 units with and "
        "without a functional; a gradient evaluation failing once followed by a second calculate(); n_cores > 3N; hybrid serial branch); motion-oracle = Species.rotate / translate sequences (with and without frequency / mode queries in between) on a species "
        "carrying its analytic Hessian; numerical-Hessian shifts also given in pm / nm / a0; reorder-oracle = Species.reorder_atoms on a species carrying its analytic Hessian, every permutation of 3-4 atoms "
        "(thorough: random non-involutive permutations up to 13 atoms); freq-oracle = generated molecules (2..15 atoms; linear / planar / general; mixed elements; minima and saddles of "
        "harmonic+Morse bond networks) x {rotations, translations, permutations, 5 storage units, scale factors}; numhess-oracle = "
        "Morse/harmonic mock gradient x {forward, central} x n_cores {1,2,4} + serial branch + every atom subset for the hybrid "
        "calculator (N<=4 exhaustive quick, N<=5 thorough); model-vs-impl = the same calculators with dyadic polynomial mock "
        "gradients compared exactly with the Coq model, plus _tr_vecs, n_tr/n_v, _eigenvalues_to_freqs, frequencies_proj, "
        "_mass_weighted; a case is non-trivial when the transformation is not the identity / the subset is proper / an "
        "eigenvalue is negative; distinct by (molecule, transformation | subset, scheme, cores)")

SLICE = ["lib/Sums.v", "lib/QcInst.v", "C06/Base.v", "gen/C06_Gen.v",
         "C11/Base.v", "C11/Model.v", "C11/Lemmas.v", "C11/Units.v", "C11/Props.v", "C11/Corr.v", "gen/C11_Gen.v"]
# Functions the HAND-WRITTEN model coq/C11/Model.v was written from and that tr/translate_c11.py neither regenerates nor
# pins structurally (it regenerates / pins exactly: Hessian.n_tr, n_v, _mass_weighted, _freq_scale_factor,
# _eigenvalues_to_freqs, frequencies_proj; NumericalHessianCalculator.hessian, _n_rows, _idxs_to_calculate, calculate,
# _calculate_in_serial, _diff_row, _cdiff_row, _shift_vector; HybridHessianCalculator.calculate, _remove_h_method_rows;
# values._to and the unit tables come from tr/translate_units.py).  _new_species, _gradient and
# HybridHessianCalculator.__init__ are only checked for a few statements by the translator, hence pinned here too.
PINS = [("autode/hessians.py", q) for q in (
    "Hessian._tr_vecs",                          # Model.tile, cross, rot_vec, tr_vecs
    "Hessian._proj_matrix",                      # Model.mass_rep, mw_vec, norm, normalised; D (qr) is an oracle
    "Hessian._proj_mass_weighted",               # D^T F D, whose [n_tr:, n_tr:] block feeds eigh / eigvalsh (oracles)
    "Hessian.normal_modes_proj",                 # Model.s_prime, mode_raw, mode
    "NumericalHessianCalculator.__init__",       # fresh state: zeros, _calculated_rows = [], shift in Angstrom
    "NumericalHessianCalculator._hessian_shape",
    "NumericalHessianCalculator._new_species",   # Model.displaced
    "NumericalHessianCalculator._gradient",      # the gradient oracle uses the CURRENT self._method
    "NumericalHessianCalculator._init_gradient",  # g0 = gradient of the undisplaced species (getter)
    "HybridHessianCalculator.__init__",          # Model.hybrid_valid, do_c_diff = False, low-level method first
)] + [
    ("autode/atoms.py", "Atoms.are_linear"),     # Model.are_linear
    ("autode/atoms.py", "Atoms.com"),            # Model.com
    ("autode/atoms.py", "Atom.translate"),       # Model.displaced: the shift vector is ADDED to the coordinate
    ("autode/config.py", "_ConfigClass.__setattr__"),   # freq_scale_factor validated to (0, 1]: premise 0 <= scale
    ("autode/utils.py", "hashable"),             # a pool job is the bound method itself
] + [
    # transitive dependencies exercised by the oracle streams (object life cycle of a Hessian, Species API, entry points)
    ("autode/hessians.py", "Hessian.__new__"), ("autode/hessians.py", "Hessian.__deepcopy__"), ("autode/hessians.py", "Hessian.copy"),
    ("autode/hessians.py", "Hessian.frequencies"), ("autode/hessians.py", "Hessian.normal_modes"),
    ("autode/hessians.py", "NumericalHessianCalculator._n_cores_pp"), ("autode/hessians.py", "NumericalHessianCalculator._validated"),
    ("autode/atoms.py", "Atoms.moi"), ("autode/atoms.py", "Atoms.copy"), ("autode/geom.py", "get_rot_mat_euler"),
    ("autode/species/species.py", "Species.hessian"), ("autode/species/species.py", "Species.frequencies"),
    ("autode/species/species.py", "Species.vib_frequencies"), ("autode/species/species.py", "Species.imaginary_frequencies"),
    ("autode/species/species.py", "Species.normal_mode"), ("autode/species/species.py", "Species.reorder_atoms"),
    ("autode/species/species.py", "Species.rotate"), ("autode/species/species.py", "Species.translate"),
    ("autode/species/species.py", "Species.calc_hessian"), ("autode/species/species.py", "Species.new_species"),
    ("autode/species/species.py", "Species.copy"), ("autode/species/species.py", "Species.is_linear"),
    ("autode/calculations/executors.py", "CalculationExecutorH.run"),
    ("autode/values.py", "ValueArray.to"), ("autode/values.py", "ValueArray.__array_finalize__"),
]

PRE = ("From Coq Require Import ZArith QArith Qcanon List String Bool.\nFrom AV.lib Require Import QcInst.\n"
       "From AV.C11 Require Import Base Model Corr.\nFrom AV.gen Require Import C11_Gen.\nImport ListNotations.\n"
       "Open Scope string_scope.\n")

EH_J = 4.3597447222071e-18      # CODATA 2018 (reference spectrum; the package has its own constants)
AMU_KG = 1.66053906660e-27
C_CM = 2.99792458e10
ELEMENTS = ["H", "C", "N", "O", "F", "S", "Cl", "B", "Si", "P", "Li"]


# ============================================================================================ mock methods
class _MockBase(Method):
    """A gradient 'method' evaluated in-process (no external program, picklable for the process pool)."""

    def __init__(self, name):
        super().__init__(name=name, doi_list=[], keywords_set=KeywordsSet())

    @property
    def uses_external_io(self):
        return False

    def __repr__(self):
        return f"Mock({self.name})"

    def implements(self, calculation_type):
        return "hess" not in str(calculation_type).lower()

    def grad(self, x):
        raise NotImplementedError

    def execute(self, calc):
        x = np.array(calc.molecule.coordinates, dtype=float).flatten()
        calc.molecule.energy = 0.0
        calc.molecule.gradient = np.array(self.grad(x)).reshape(-1, 3)


class MockPoly(_MockBase):
    """g_j(x) = sum_k A_jk x_k + c_j x_j x_((j+1) mod d) + q_j x_j^2 with dyadic coefficients: exact in doubles."""

    def __init__(self, name, A, c, q):
        super().__init__(name)
        self.A, self.c, self.q = np.array(A, dtype=float), np.array(c, dtype=float), np.array(q, dtype=float)

    def grad(self, x):
        d = len(x)
        return self.A[:d, :d] @ x + self.c[:d] * x * np.roll(x, -1) + self.q[:d] * x * x

    def coq(self, d):
        return f"(mkMock {qc_mat(self.A[:d, :d].tolist())} {qc_list(self.c[:d].tolist())} {qc_list(self.q[:d].tolist())})"


class MockNet(_MockBase):
    """Bond network: harmonic k/2 (r-r0)^2 or Morse D (1-exp(-a (r-r0)))^2 on atom pairs."""

    def __init__(self, name, pairs):
        super().__init__(name)
        self.pairs = list(pairs)       # (i, j, kind, p1, p2, r0): harmonic p1=k; morse p1=D, p2=a

    def _d12(self, kind, p1, p2, r0, r):
        if kind == "h":
            return p1 * (r - r0), p1
        e = math.exp(-p2 * (r - r0))
        return 2 * p1 * p2 * e * (1 - e), 2 * p1 * p2 * p2 * e * (2 * e - 1)

    def grad(self, x):
        X = np.asarray(x, dtype=float).reshape(-1, 3)
        g = np.zeros_like(X)
        for (i, j, kind, p1, p2, r0) in self.pairs:
            dv = X[i] - X[j]
            r = float(np.linalg.norm(dv))
            d1, _ = self._d12(kind, p1, p2, r0, r)
            g[i] += d1 * dv / r
            g[j] -= d1 * dv / r
        return g.flatten()

    def hess(self, x):
        X = np.asarray(x, dtype=float).reshape(-1, 3)
        n = len(X)
        H = np.zeros((3 * n, 3 * n))
        for (i, j, kind, p1, p2, r0) in self.pairs:
            dv = X[i] - X[j]
            r = float(np.linalg.norm(dv))
            u = dv / r
            d1, d2 = self._d12(kind, p1, p2, r0, r)
            B = d2 * np.outer(u, u) + (d1 / r) * (np.eye(3) - np.outer(u, u))
            H[3 * i:3 * i + 3, 3 * i:3 * i + 3] += B
            H[3 * j:3 * j + 3, 3 * j:3 * j + 3] += B
            H[3 * i:3 * i + 3, 3 * j:3 * j + 3] -= B
            H[3 * j:3 * j + 3, 3 * i:3 * i + 3] -= B
        return H


class MockFlaky(MockNet):
    """A bond network whose gradient evaluation FAILS ONCE: while the flag file exists, the evaluation at the chosen point
    (`ref` = the undisplaced geometry, or the geometry whose flat coordinate `row` is displaced) removes the file and raises."""

    def __init__(self, name, pairs, x0, fail_at, flag):
        super().__init__(name, pairs)
        self.x0, self.fail_at, self.flag = np.array(x0, dtype=float), fail_at, flag

    def execute(self, calc):
        x = np.array(calc.molecule.coordinates, dtype=float).flatten()
        moved = np.nonzero(np.abs(x - self.x0) > 1e-12)[0]
        here = "ref" if len(moved) == 0 else int(moved[0])
        if here == self.fail_at and os.path.exists(self.flag):
            os.remove(self.flag)
            raise RuntimeError("mock gradient evaluation failed (once)")
        super().execute(calc)


def reference_fd(net, x, h, cdiff):
    """the finite-difference matrix the calculator must produce, computed independently (raw rows, then symmetrised)"""
    d = len(x)
    raw = np.zeros((d, d))
    g0 = net.grad(x)
    for r in range(d):
        e = np.zeros(d)
        e[r] = h
        raw[r] = (net.grad(x + e) - net.grad(x - e)) / (2 * h) if cdiff else (net.grad(x + e) - g0) / h
    return raw, (raw + raw.T) / 2


def fault_oracle(ctx, fail, n, symbols, X, hi, Hh, work):
    """A gradient evaluation fails once, calculate() raises, the caller calls calculate() again on the same calculator:
    the Hessian must then be the numerical Hessian (every row recorded as calculated holds its finite difference)."""
    x = X.flatten()
    h = 1e-3
    for cdiff in (False, True):
        bf, bc = fd_bounds(hi, x, h)
        bound = bc if cdiff else bf
        for fail_at in (["ref"] if not cdiff else []) + [0, 3 * n - 2]:
            for nc in (1, 2):
                flag = os.path.join(work, f"flaky-{n}-{int(cdiff)}-{fail_at}-{nc}.flag")
                open(flag, "w").close()
                net = MockFlaky("mockf", hi.pairs, x, fail_at, flag)
                ctx.count("numhess-oracle", ("fault", n, cdiff, fail_at, nc), nontrivial=True,
                          sample={"n_atoms": n, "central": cdiff, "gradient_failing_once": fail_at, "n_cores": nc})
                ctx.hist("numhess-oracle", "fault:" + ("reference-gradient" if fail_at == "ref" else "displaced-gradient"))
                rep = numhess_replay(symbols, X, [hi], scheme="central" if cdiff else "forward", shift=h, n_cores=nc, gradient_failing_once=fail_at)
                mol = make_molecule(symbols, X)
                c = NumericalHessianCalculator(mol, method=net, keywords=net.keywords.grad, do_c_diff=cdiff, shift=Distance(h, units="Å"), n_cores=nc)
                raised = False
                try:
                    c.calculate()
                except Exception:  # noqa
                    raised = True
                if os.path.exists(flag):
                    os.remove(flag)
                    ctx.hist("numhess-oracle", "fault:not-triggered")
                    continue
                try:
                    if raised:
                        c.calculate()
                    Hn = np.array(c.hessian, dtype=float)
                except Exception as e:  # noqa
                    fail(f"NumericalHessianCalculator|exception:{type(e).__name__}", f"{n} atoms: calculate() after a failed gradient evaluation raised {type(e).__name__}: {str(e)[:150]}", rep)
                    continue
                dev = np.abs(Hn - Hh).max()
                if dev > bound:
                    zero_rows = [r for r in range(3 * n) if not np.any(np.array(c._hessian)[r]) and np.any(Hh[r])]
                    key = "NumericalHessianCalculator|retry-after-failed-reference-gradient" if fail_at == "ref" else "NumericalHessianCalculator|row-marked-before-evaluated"
                    fail(key, f"{n} atoms, {'central' if cdiff else 'forward'} differences, n_cores={nc}: the gradient evaluation at "
                         f"{'the undisplaced geometry' if fail_at == 'ref' else 'the geometry with coordinate %d displaced' % fail_at} fails once, calculate() raises"
                         f"{'' if raised else ' NOT'}, calculate() is called again and then the Hessian deviates from the analytic one by {dev:.3e} > {bound:.3e} "
                         f"(_calculated_rows = {sorted(c._calculated_rows)}, rows never evaluated: {zero_rows})", rep)


def make_molecule(symbols, coords, name="m"):
    atoms = [Atom(s, *[float(v) for v in c]) for s, c in zip(symbols, coords)]
    nel = sum(a.atomic_number for a in atoms)
    return ade.Molecule(name=name, atoms=atoms, charge=0, mult=1 if nel % 2 == 0 else 2)


def _run_calc(kind, symbols, coords, methods, idxs, cdiff, shift, n_cores, calc0=None, H0=None):
    """Run one calculator on the real code -> (calculated_rows, raw matrix, matrix returned by .hessian) or 'ValueError'."""
    mol = make_molecule(symbols, coords)
    sh_ = Distance(shift[0], units=shift[1]) if isinstance(shift, (tuple, list)) else Distance(shift, units="Å")
    try:
        if kind == "hybrid":
            c = HybridHessianCalculator(mol, idxs=tuple(idxs), shift=sh_, lmethod=methods[0], hmethod=methods[1], n_cores=n_cores)
        else:
            c = NumericalHessianCalculator(mol, method=methods[0], keywords=methods[0].keywords.grad, do_c_diff=cdiff,
                                           shift=sh_, n_cores=n_cores)
    except ValueError:
        return "ValueError"
    if calc0 is not None:
        c._calculated_rows = list(calc0)
        c._hessian[:] = np.array(H0, dtype=float)
    c.calculate()
    rows = [int(r) for r in c._calculated_rows]
    raw = np.array(c._hessian, dtype=float).copy()
    sym = np.array(c.hessian, dtype=float).copy()
    return rows, raw, sym


def _run_calc_child(args):
    return _run_calc(*args)


def run_calc(args, in_child=False):
    """in_child=True evaluates inside a worker process, where calculate() takes the serial branch."""
    if not in_child:
        return _run_calc(*args)
    from autode.utils import ProcessPool
    with ProcessPool(max_workers=1) as pool:
        return pool.submit(_run_calc_child, args).result()


def safe_calc(fail, args, rep, what, in_child=False):
    """run_calc, turning an exception of the implementation into a finding (-> None)."""
    try:
        return run_calc(args, in_child=in_child)
    except Exception as e:  # noqa
        cls = "HybridHessianCalculator" if args[0] == "hybrid" else "NumericalHessianCalculator"
        fail(f"{cls}|exception:{type(e).__name__}", f"{what}: calculate() raised {type(e).__name__}: {str(e)[:200]}", rep)
        return None


# ============================================================================================ geometry / frames
def rot_from_quat(a, b, c, d):
    """Exactly orthogonal rational rotation from an integer quaternion (entries are exact fractions)."""
    n = a * a + b * b + c * c + d * d
    R = [[a * a + b * b - c * c - d * d, 2 * (b * c - a * d), 2 * (b * d + a * c)],
         [2 * (b * c + a * d), a * a - b * b + c * c - d * d, 2 * (c * d - a * b)],
         [2 * (b * d - a * c), 2 * (c * d + a * b), a * a - b * b - c * c + d * d]]
    return np.array([[float(Fraction(v, n)) for v in row] for row in R])


def transform(coords, H, R, t, perm):
    """rotate/translate/relabel molecule and Hessian together"""
    n = len(coords)
    X = np.asarray(coords) @ R.T + t
    full = np.kron(np.eye(n), R)
    H2 = full @ H @ full.T
    X = X[perm]
    idx = [3 * p + k for p in perm for k in range(3)]
    return X, H2[np.ix_(idx, idx)]


def gen_geometry(rng, n, shape):
    """n points with pair distances >= 0.9; shape in linear / planar / general"""
    if shape == "linear":
        u = np.array([rng.uniform(-1, 1) for _ in range(3)])
        u /= np.linalg.norm(u)
        pos = np.cumsum([0.0] + [rng.uniform(1.0, 1.6) for _ in range(n - 1)])
        o = np.array([rng.uniform(-2, 2) for _ in range(3)])
        return np.array([o + p * u for p in pos])
    pts = []
    guard = 0
    while len(pts) < n:
        guard += 1
        L = 1.2 * n ** (1 / 3) + 0.8
        p = np.array([rng.uniform(-L, L), rng.uniform(-L, L), 0.0 if shape == "planar" else rng.uniform(-L, L)])
        if all(np.linalg.norm(p - q) >= 0.9 for q in pts) and (not pts or min(np.linalg.norm(p - q) for q in pts) <= 2.2 or guard > 400):
            pts.append(p)
    X = np.array(pts)
    if shape == "planar":   # tilt the plane
        X = X @ rot_from_quat(3, 1, 2, 1).T
    return X


def gen_network(rng, X, stationary=True, saddle=False, scale=1.0):
    """all-pairs network (rigid); stationary: r0 = current distance (gradient zero, every pair term at its minimum)"""
    n = len(X)
    pairs = []
    allp = list(itertools.combinations(range(n), 2))
    neg = rng.choice(allp) if saddle and len(allp) > 1 else None
    for (i, j) in allp:
        r = float(np.linalg.norm(X[i] - X[j]))
        r0 = r if stationary else r * rng.uniform(0.93, 1.07)
        w = math.exp(-0.6 * max(r - 1.2, 0.0))           # weaker springs for distant pairs
        if rng.random() < 0.5:
            k = scale * w * rng.uniform(0.15, 1.2)
            if neg == (i, j):
                k = -0.6 * abs(k) - 0.2
            pairs.append((i, j, "h", k, 0.0, r0))
        else:
            D = scale * w * rng.uniform(0.05, 0.25)
            if neg == (i, j):
                D = -D - 0.1
            pairs.append((i, j, "m", D, rng.uniform(1.2, 2.2), r0))
    return pairs


def ref_freqs(H, atoms, scale=1.0):
    """Independent reference: wavenumbers of the vibrational block (own projector, own constants) and n_tr."""
    n = len(atoms)
    m = np.repeat([float(a.mass) for a in atoms], 3) * AMU_KG
    F = (H * EH_J / 1e-20) / np.sqrt(np.outer(m, m))
    X = np.array([a.coord for a in atoms], dtype=float)
    M = np.array([float(a.mass) for a in atoms])
    com = (M[:, None] * X).sum(0) / M.sum()
    T = []
    for a in range(3):
        e = np.eye(3)[a]
        T.append(np.sqrt(np.repeat(M, 3)) * np.tile(e, n))
        T.append(np.sqrt(np.repeat(M, 3)) * np.concatenate([np.cross(e, x - com) for x in X]))
    T = np.array(T).T
    U, s, _ = np.linalg.svd(T, full_matrices=True)
    ntr = int((s > 1e-8 * s.max()).sum())
    Q = U[:, ntr:]
    lam = np.linalg.eigvalsh(Q.T @ F @ Q)
    nu = np.sign(lam) * np.sqrt(np.abs(lam)) / (2 * math.pi * C_CM) * scale
    return np.sort(nu), ntr, U[:, :ntr], lam


def floats(fs):
    return np.array([float(f) for f in fs])


def spec_close(a, b, rel=1e-6):
    a, b = np.sort(a), np.sort(b)
    if len(a) != len(b):
        return False, 0
    numax = max(1.0, float(np.max(np.abs(a))) if len(a) else 1.0)
    floor_used = 0
    for x, y in zip(a, b):
        d = abs(x - y)
        if d <= rel * max(abs(x), abs(y)):
            continue
        if d <= 2e-7 * numax:     # sqrt amplification of eigenvalue rounding near zero
            floor_used += 1
            continue
        return False, floor_used
    return True, floor_used


# ============================================================================================ oracle A: frequencies / modes
class Fails:
    """Collects property failures seen on the implementation; reports at most 2 per key and `limit` overall
    (occurrences of listed known findings do not use up the budget)."""

    def __init__(self, ctx, limit=16):
        self.ctx, self.n, self.limit, self.keys, self.reported = ctx, 0, limit, {}, 0

    def __call__(self, key, what, rep):
        self.n += 1
        self.keys[key] = self.keys.get(key, 0) + 1
        if key in self.ctx.known_keys():
            self.ctx.finding(key, what, rep)
        elif self.keys[key] <= 2 and self.reported < self.limit:
            self.reported += 1
            self.ctx.finding(key, what, rep)


def mol_replay(symbols, X, H, **kw):
    d = {"symbols": list(symbols), "coords": np.asarray(X).tolist(), "hessian_ha_per_ang2": np.asarray(H).tolist()}
    d.update(kw)
    return d


def freq_case(ctx, fail, symbols, X, H, label, frames, check_units=True, true_linear=None):
    """All frequency / mode oracles for one molecule + Hessian (Ha/A^2); an exception of the implementation is a finding."""
    try:
        return _freq_case(ctx, fail, symbols, X, H, label, frames, check_units, true_linear)
    except Exception as e:  # noqa
        Config.freq_scale_factor = None
        fail(f"Hessian|exception:{type(e).__name__}", f"{label}: frequencies / modes raised {type(e).__name__}: {str(e)[:200]}",
             mol_replay(symbols, X, H, kind="freq-case", label=label))
        return 1


def _freq_case(ctx, fail, symbols, X, H, label, frames, check_units=True, true_linear=None):
    n0 = fail.n
    n = len(symbols)
    atoms = Atoms([Atom(s, *map(float, x)) for s, x in zip(symbols, X)])
    rep = lambda **kw: mol_replay(symbols, X, H, kind="freq-case", label=label, **kw)  # noqa: E731
    Config.freq_scale_factor = None
    hs = Hessian(np.array(H), atoms=atoms, units="Ha Å^-2")
    try:
        f = floats(hs.frequencies_proj)
        modes = [np.array(mo, dtype=float).flatten() for mo in hs.normal_modes_proj]
    except RecursionError:
        fail("Hessian._tr_vecs|recursion", f"{label}: _tr_vecs recursed without finding independent rotation vectors", rep())
        return fail.n - n0
    linear = bool(atoms.are_linear())
    ntr = 5 if linear else 6
    ref, ref_ntr, Ttr, lam = ref_freqs(np.array(H), atoms)
    ctx.count("freq-oracle", (label, "base"), nontrivial=True, sample={"label": label, "n_atoms": n, "linear": linear})
    ctx.hist("freq-oracle", f"n={n}")
    ctx.hist("freq-oracle", "linear" if linear else "non-linear")
    # the geometric truth: the generator knows whether the points are exactly collinear; otherwise the rank of the
    # mass-weighted translation/rotation vectors of the reference projector decides
    want_linear = (ref_ntr == 5) if true_linear is None else bool(true_linear)
    if linear != want_linear or ref_ntr != (5 if want_linear else 6):
        fail("Atoms.are_linear|misclassified", f"{label}: the atoms are {'collinear' if want_linear else 'not collinear'} (rank of the translation/rotation "
             f"space {ref_ntr}) but are_linear() = {linear}, n_tr = {hs.n_tr}", rep())
        return fail.n - n0
    # count and zeros
    if len(f) != 3 * n or hs.n_tr != ntr or any(v != 0.0 for v in f[:ntr]):
        fail("Hessian.frequencies_proj|zero-count", f"{label}: {len(f)} frequencies, n_tr={hs.n_tr} (expected {ntr}), leading {f[:ntr].tolist()}", rep())
    if len(modes) != 3 * n or any(np.abs(mo).max() != 0.0 for mo in modes[:ntr]):
        fail("Hessian.normal_modes_proj|tr-modes-nonzero", f"{label}: the first {ntr} projected modes are not identically zero", rep())
    numax = max(1.0, float(np.abs(ref).max()))
    vib = f[ntr:]
    nzero = int((np.abs(vib) < 1e-5 * numax).sum())
    ref_zero = int((np.abs(ref) < 1e-5 * numax).sum())
    if nzero != ref_zero:
        fail("Hessian.frequencies_proj|extra-zero-modes", f"{label}: {ntr + nzero} zero modes, the rigid network has exactly {ntr + ref_zero}", rep())
    ok, fl = spec_close(vib, ref)
    if fl:
        ctx.hist("freq-oracle", "near-zero-floor-used")
    if not ok:
        fail("Hessian.frequencies_proj|reference-spectrum", f"{label}: projected frequencies {np.sort(vib)[:6].tolist()}... differ from the "
             f"reference spectrum {ref[:6].tolist()}...", rep())
    nneg, rneg = int((vib < -1e-5 * numax).sum()), int((ref < -1e-5 * numax).sum())
    if rneg:
        ctx.hist("freq-oracle", "negative-curvature")
    if nneg != rneg:
        fail("Hessian._eigenvalues_to_freqs|negative-curvature", f"{label}: {rneg} negative curvature directions but {nneg} negative frequencies", rep())
    # modes: orthonormal, no net translation/rotation, consistent with the frequencies
    V = np.array(modes[ntr:])
    if len(V):
        G = V @ V.T
        if np.abs(G - np.eye(len(V))).max() > 1e-8:
            fail("Hessian.normal_modes_proj|not-orthonormal", f"{label}: Gram matrix of the vibrational modes deviates from 1 by {np.abs(G - np.eye(len(V))).max():.2e}", rep())
        ov = np.abs(V @ Ttr).max()
        if ov > 1e-8:
            fail("Hessian.normal_modes_proj|net-translation-rotation", f"{label}: a vibrational mode overlaps a mass-weighted translation/rotation by {ov:.2e}", rep())
        m = np.repeat([float(a.mass) for a in atoms], 3) * AMU_KG
        F = (np.array(H) * EH_J / 1e-20) / np.sqrt(np.outer(m, m))
        ray = np.array([v @ F @ v for v in V])
        nu = np.sign(ray) * np.sqrt(np.abs(ray)) / (2 * math.pi * C_CM)
        bad = [i for i in range(len(V)) if abs(nu[i] - vib[i]) > 1e-6 * max(abs(vib[i]), 1.0) + 2e-7 * numax]
        if bad:
            fail("Hessian.normal_modes_proj|mode-frequency-mismatch", f"{label}: mode {ntr + bad[0]} has Rayleigh wavenumber {nu[bad[0]]!r} but frequency {vib[bad[0]]!r}", rep())
    # frames
    for (fname, R, t, perm) in frames:
        X2, H2 = transform(X, np.array(H), R, t, perm)
        sy2 = [symbols[p] for p in perm]
        at2 = Atoms([Atom(s, *map(float, x)) for s, x in zip(sy2, X2)])
        h2 = Hessian(H2, atoms=at2, units="Ha Å^-2")
        trivial = np.allclose(R, np.eye(3)) and not np.any(t) and list(perm) == list(range(n))
        ctx.count("freq-oracle", (label, fname), nontrivial=not trivial)
        ctx.hist("freq-oracle", "frame:" + fname.split(":")[0])
        try:
            f2 = floats(h2.frequencies_proj)
            m2 = [np.array(mo, dtype=float).flatten() for mo in h2.normal_modes_proj]
        except RecursionError:
            fail("Hessian._tr_vecs|recursion", f"{label} after {fname}: _tr_vecs recursed without finding independent rotation vectors",
                 rep(frame=fname, R=R.tolist(), t=list(map(float, t)), perm=list(perm)))
            continue
        ok, fl = spec_close(f2, f)
        if not ok or h2.n_tr != hs.n_tr:
            fail("Hessian.frequencies_proj|frame-dependent", f"{label}: frequencies change under {fname}: {np.sort(f)[ntr:ntr + 4].tolist()} -> {np.sort(f2)[ntr:ntr + 4].tolist()} (n_tr {hs.n_tr} -> {h2.n_tr})",
                 rep(frame=fname, R=R.tolist(), t=list(map(float, t)), perm=list(perm)))
            continue
        # mode equivariance: cluster (near-)degenerate vibrations and compare the projectors onto each cluster
        full = np.kron(np.eye(n), R)
        idx = [3 * p + k for p in perm for k in range(3)]
        clusters, cur = [], [ntr]
        for i in range(ntr + 1, 3 * n):
            if abs(f[i] - f[i - 1]) < 1e-3 * numax:
                cur.append(i)
            else:
                clusters.append(cur)
                cur = [i]
        if ntr < 3 * n:
            clusters.append(cur)
        for cl in clusters:
            A = np.array([(full @ modes[i])[idx] for i in cl]).T
            B = np.array([m2[i] for i in cl]).T
            ctx.hist("freq-oracle", "mode-cluster:" + ("degenerate" if len(cl) > 1 else "single"))
            if np.abs(A @ A.T - B @ B.T).max() > 1e-5:
                fail("Hessian.normal_modes_proj|frame-dependent", f"{label}: the modes {cl} do not transform with the molecule under {fname}: "
                     f"projector deviation {np.abs(A @ A.T - B @ B.T).max():.2e}",
                     rep(frame=fname, R=R.tolist(), t=list(map(float, t)), perm=list(perm), modes=cl))
                break
    # storage units
    if check_units:
        for u in Hessian.implemented_units:
            ctx.count("freq-oracle", (label, "unit", u.name), nontrivial=(u.name != "Ha Å^-2"))
            stored = np.array(hs.to(u))
            h3 = Hessian(stored, atoms=atoms, units=u)
            ok, _ = spec_close(floats(h3.frequencies_proj), f, rel=1e-9)
            _ = h3.normal_modes_proj
            if not ok:
                fail("Hessian.frequencies_proj|unit-dependent", f"{label}: frequencies differ when the Hessian is stored in {u.name}", rep(unit=u.name))
            if not np.array_equal(np.array(h3), stored) or h3.units != u:
                fail("Hessian|stored-values-modified", f"{label}: evaluating frequencies / modes changed the stored Hessian (unit {u.name}): "
                     f"max change {np.abs(np.array(h3) - stored).max():.3e}", rep(unit=u.name))
            back = np.array(h3.to("Ha Å^-2"))
            if np.abs(back - np.array(H)).max() > 1e-9 * max(1.0, np.abs(H).max()):
                fail("Hessian|stored-values-modified", f"{label}: after evaluating frequencies the Hessian stored in {u.name} no longer converts back to the "
                     f"original (max deviation {np.abs(back - np.array(H)).max():.3e} Ha/A^2)", rep(unit=u.name))
            cp = h3.copy()
            if cp.units != u or not spec_close(floats(cp.frequencies_proj), f, rel=1e-9)[0]:
                fail("Hessian.copy|frequencies-changed", f"{label}: copy() of a Hessian stored in {u.name} has different frequencies", rep(unit=u.name))
        # scale factors
        for s in (0.5, 0.96, 1.0):
            ctx.count("freq-oracle", (label, "scale", s), nontrivial=(s != 1.0))
            Config.freq_scale_factor = s
            try:
                fs = floats(Hessian(np.array(H), atoms=atoms, units="Ha Å^-2").frequencies_proj)
            finally:
                Config.freq_scale_factor = None
            if not spec_close(fs, s * f)[0]:
                fail("Hessian._eigenvalues_to_freqs|scale-factor", f"{label}: Config.freq_scale_factor={s} does not multiply every frequency "
                     f"(max deviation {np.abs(np.sort(fs) - np.sort(s * f)).max():.3e})", rep(scale=s))
        # one object, queried, then the configured factor changes: "the configured scale factor multiplies every frequency"
        ctx.count("freq-oracle", (label, "scale-after-query"), nontrivial=True)
        hq = Hessian(np.array(H), atoms=atoms, units="Ha Å^-2")
        fq = floats(hq.frequencies_proj)
        Config.freq_scale_factor = 0.5
        try:
            fq2 = floats(hq.frequencies_proj)
        finally:
            Config.freq_scale_factor = None
        if not spec_close(fq2, 0.5 * fq)[0]:
            fail("Hessian.frequencies_proj|scale-factor-cached", f"{label}: frequencies_proj was read, then Config.freq_scale_factor set to 0.5: the same object still "
                 f"returns {np.sort(fq2)[-2:].tolist()} instead of {np.sort(0.5 * fq)[-2:].tolist()}", rep(scale=0.5))
        from autode.wrappers.keywords.functionals import pbe0
        hf = Hessian(np.array(H), atoms=atoms, units="Ha Å^-2", functional=pbe0)
        fs = floats(hf.frequencies_proj)
        fc = floats(hf.copy().frequencies_proj)
        if not spec_close(fc, fs)[0]:
            fail("Hessian.copy|functional-dropped", f"{label}: Hessian(functional=pbe0).copy() has frequencies {np.sort(fc)[-2:].tolist()}, the original "
                 f"{np.sort(fs)[-2:].tolist()} (scale factor {pbe0.freq_scale_factor} lost)", rep())
        import copy as _copy
        fd_ = floats(_copy.deepcopy(hf).frequencies_proj)
        if not spec_close(fd_, fs)[0]:
            fail("Hessian.__deepcopy__|frequencies-changed", f"{label}: deepcopy of a Hessian with a functional has different frequencies", rep())
        if not spec_close(fs, pbe0.freq_scale_factor * f)[0]:
            fail("Hessian._freq_scale_factor|functional", f"{label}: the functional's scale factor {pbe0.freq_scale_factor} does not multiply every frequency", rep())
    return fail.n - n0


def frames_for(rng, n, count):
    fr = []
    quats = [(1, 0, 0, 0), (1, 2, 3, 4), (2, -1, 0, 5), (0, 1, 1, 1), (7, 1, -3, 2), (1, 1, 0, 0), (3, 0, 4, 0), (5, -2, 2, 1)]
    ident = list(range(n))
    t0 = np.zeros(3)
    fr.append(("rotation:q1234", rot_from_quat(1, 2, 3, 4), t0, ident))
    fr.append(("translation", np.eye(3), np.array([1.25, -3.5, 0.75]), ident))
    p = ident[:]
    rng.shuffle(p)
    if p == ident and n > 1:
        p = ident[1:] + ident[:1]
    fr.append(("permutation", np.eye(3), t0, p))
    for k in range(count):
        q = quats[rng.randrange(len(quats))] if k % 2 else tuple(rng.randint(-6, 6) for _ in range(4))
        if not any(q):
            q = (1, 1, 1, 1)
        p = ident[:]
        rng.shuffle(p)
        t = np.array([rng.randint(-40, 40) / 8 for _ in range(3)])
        fr.append((f"rigid+perm:q{q}", rot_from_quat(*q), t, p))
    # axis-aligned frames (eigenvector degeneracies of the inertia tensor show up here)
    fr.append(("rotation:axis-swap", np.array([[0., 1, 0], [0, 0, 1], [1, 0, 0]]), t0, ident))
    return fr


def oracle_frequencies(ctx, fail):
    rng = ctx.rng
    full = not ctx.quick
    sizes = [2, 2, 3, 3, 3, 4, 4, 5, 6, 8, 11, 15] if ctx.quick else [2, 2, 2, 3, 3, 3, 3, 4, 4, 4, 5, 5, 6, 6, 7, 8, 9, 10, 11, 12, 13, 14, 15, 15]
    plan = []
    for n in sizes:
        shapes = ["general"]
        if n == 2:
            shapes = ["linear"]
        elif n <= 6:
            shapes = ["linear", "general", "planar"] if (full or n <= 4) else ["general", "linear"]
        for shp in shapes:
            if shp == "planar" and n < 4:
                continue
            plan.append((n, shp))
    for ci, (n, shp) in enumerate(plan):
        X = gen_geometry(rng, n, shp)
        symbols = [rng.choice(ELEMENTS) for _ in range(n)]
        if rng.random() < 0.3:
            symbols = [symbols[0]] * n          # homonuclear: degenerate inertia tensors
        for variant in (["min", "saddle"] if (n >= 3 and (full or ci % 2 == 0)) else ["min"]):
            pairs = gen_network(rng, X, stationary=True, saddle=(variant == "saddle"))
            H = MockNet("ref", pairs).hess(X.flatten())
            label = f"{shp}-{n}-{variant}-{''.join(symbols)}"
            freq_case(ctx, fail, symbols, X, H, label, frames_for(rng, n, 2 if ctx.quick else 5), check_units=(full or n <= 8),
                      true_linear=(shp == "linear"))
        if n <= 6 and (full or ci % 3 == 0 or shp == "linear"):
            # a non-stationary geometry: rotations are not null vectors of H, projection still frame-independent
            pairs = gen_network(rng, X, stationary=False)
            H = MockNet("ref", pairs).hess(X.flatten())
            freq_case(ctx, fail, symbols, X, H, f"{shp}-{n}-offmin-{''.join(symbols)}", frames_for(rng, n, 1), check_units=False,
                      true_linear=(shp == "linear"))
    # axis-aligned linear molecules (rotation vector about the molecular axis vanishes)
    for ax in range(3):
        for n in (2, 3, 4):
            X = np.zeros((n, 3))
            X[:, ax] = np.cumsum([0.0] + [1.1 + 0.1 * k for k in range(n - 1)])
            symbols = (["O", "C", "O", "S"] if n != 2 else ["H", "F"])[:n]
            H = MockNet("ref", gen_network(rng, X, stationary=True)).hess(X.flatten())
            freq_case(ctx, fail, symbols, X, H, f"linear-axis{ax}-{n}", frames_for(rng, n, 1), check_units=False, true_linear=True)
    oracle_nearlinear(ctx, fail)


def oracle_nearlinear(ctx, fail):
    """Nearly linear chains (bent by a fraction of / a few degrees at an inner atom) with an off-minimum harmonic network:
    whatever the package decides about linearity, n_tr and the frequencies must not depend on the labelling."""
    rng = ctx.rng
    for n in (3, 4):
        for dev in (0.4, 1.5, 3.0):
            a = math.radians(180.0 - dev)
            X = np.zeros((n, 3))
            X[0] = [1.2, 0.0, 0.0]
            X[2] = [1.3 * math.cos(a), 1.3 * math.sin(a), 0.0]
            if n == 4:
                X[3] = X[2] + 1.1 * (X[2] - X[1]) / np.linalg.norm(X[2] - X[1])
            symbols = ["O", "C", "S", "H"][:n]
            pairs = [(i, j, "h", 1.0 / (1 + abs(i - j)), 0.0, 0.93 * float(np.linalg.norm(X[i] - X[j]))) for i, j in itertools.combinations(range(n), 2)]
            H = MockNet("ref", pairs).hess(X.flatten())
            seen = {}
            for perm in itertools.permutations(range(n)):
                if n == 4 and rng.random() < 0.5 and ctx.quick:
                    continue
                perm = list(perm)
                X2, H2 = transform(X, H, np.eye(3), np.zeros(3), perm)
                at = Atoms([Atom(symbols[p], *map(float, x)) for p, x in zip(perm, X2)])
                ctx.count("freq-oracle", ("near-linear", n, dev, tuple(perm)), nontrivial=True)
                ctx.hist("freq-oracle", f"near-linear:{dev}deg")
                try:
                    hh = Hessian(H2, atoms=at, units="Ha Å^-2")
                    seen[tuple(perm)] = (hh.n_tr, floats(hh.frequencies_proj))
                except Exception as e:  # noqa
                    fail(f"Hessian|exception:{type(e).__name__}", f"near-linear {n} atoms bent {dev} deg, labelling {perm}: {type(e).__name__}: {str(e)[:150]}",
                         mol_replay(symbols, X, H, kind="freq-case", label=f"near-linear-{n}-{dev}", R=np.eye(3).tolist(), t=[0, 0, 0], perm=perm))
            if not seen:
                continue
            p0 = sorted(seen)[0]
            want_ntr = 5 if dev < 1.0 else 6        # documented default tolerance of are_linear: 1 degree
            if seen[p0][0] != want_ntr:
                fail("Atoms.are_linear|tolerance", f"{n} atoms bent by {dev} deg at an inner atom (documented linearity tolerance 1 deg): n_tr = {seen[p0][0]}, expected {want_ntr}",
                     mol_replay(symbols, X, H, kind="nearlinear-case", label=f"near-linear-{n}-{dev}", perm_a=list(p0), perm_b=list(p0), want_ntr=want_ntr))
            for pm, (ntr_, fr) in sorted(seen.items()):
                if ntr_ != seen[p0][0] or not spec_close(fr, seen[p0][1])[0]:
                    fail("Atoms.are_linear|near-linear-labelling-dependent", f"{n} atoms bent by {dev} deg at an inner atom: labelling {list(p0)} gives n_tr = {seen[p0][0]}, "
                         f"frequencies {np.round(np.sort(seen[p0][1])[-4:], 2).tolist()}; labelling {list(pm)} gives n_tr = {ntr_}, {np.round(np.sort(fr)[-4:], 2).tolist()}",
                         mol_replay(symbols, X, H, kind="nearlinear-case", label=f"near-linear-{n}-{dev}", perm_a=list(p0), perm_b=list(pm)))
                    break



# ============================================================================================ oracle A2: relabelling through the public API
def reorder_case(ctx, fail, symbols, X, pairs, mapping, label, unit="Ha Å^-2", functional=False):
    """Species.reorder_atoms(mapping) on a species carrying its analytic Hessian: the Hessian must be the analytic
    Hessian of the relabelled system, frequencies unchanged, every projected mode the relabelled original."""
    n = len(symbols)
    rep = {"kind": "reorder-case", "symbols": list(symbols), "coords": np.asarray(X).tolist(), "pairs": [list(p) for p in pairs],
           "mapping": {str(k): int(v) for k, v in mapping.items()}, "label": label, "unit": unit, "functional": bool(functional)}
    try:
        from autode.wrappers.keywords.functionals import pbe0
        fun = pbe0 if functional else None
        H = MockNet("ref", pairs).hess(np.asarray(X).flatten())

        def stored(at):
            return Hessian(np.array(Hessian(H.copy(), units="Ha Å^-2").to(unit)), atoms=at, units=unit, functional=fun)
        ref = make_molecule(symbols, X)
        ref.hessian = stored(ref.atoms)
        f0 = floats(ref.frequencies)
        fp0 = floats(ref.hessian.frequencies_proj)
        m0 = [np.array(mo, dtype=float).flatten() for mo in ref.hessian.normal_modes_proj]
        mol = make_molecule(symbols, X)
        mol.hessian = stored(mol.atoms)
        mol.reorder_atoms(mapping=dict(mapping))
        order = sorted(mapping, key=lambda k: mapping[k])          # new position p holds old atom order[p]
        X2 = np.array(mol.coordinates, dtype=float)
        sy2 = [a.label for a in mol.atoms]
        if sy2 != [symbols[i] for i in order] or np.abs(X2 - np.asarray(X)[order]).max() > 1e-12:
            fail("Species.reorder_atoms|atoms", f"{label}: atoms after reorder_atoms({mapping}) are {sy2}", rep)
            return
        pairs2 = [(mapping[i], mapping[j], k, p1, p2, r0) for (i, j, k, p1, p2, r0) in pairs]
        H2 = MockNet("ref", pairs2).hess(X2.flatten())
        if mol.hessian.units != unit:
            fail("Species.reorder_atoms|hessian-units-changed", f"{label}: after reorder_atoms the Hessian's unit is {mol.hessian.units.name}, was {unit}", rep)
            return
        Hs = np.array(mol.hessian.to("Ha Å^-2"), dtype=float)
        dev = np.abs(Hs - H2).max()
        if dev > 1e-8:
            r, c = np.unravel_index(int(np.argmax(np.abs(Hs - H2))), Hs.shape)
            fail("Species.reorder_atoms|hessian-not-relabelled", f"{label}: after reorder_atoms({mapping}) the stored Hessian is not the analytic Hessian of the "
                 f"relabelled system: H[{r},{c}] = {Hs[r, c]!r}, expected {H2[r, c]!r} (max deviation {dev:.3e})", rep)
        if mol.hessian.atoms is None or [a.label for a in mol.hessian.atoms] != sy2:
            fail("Species.reorder_atoms|hessian-atoms", f"{label}: the Hessian's atoms are not the relabelled atoms", rep)
        f1, fp1 = floats(mol.frequencies), floats(mol.hessian.frequencies_proj)
        if not spec_close(f1, f0)[0] or not spec_close(fp1, fp0)[0]:
            fail("Species.reorder_atoms|frequencies-changed", f"{label}: frequencies change under reorder_atoms({mapping}): "
                 f"{np.sort(f0)[-3:].tolist()} -> {np.sort(f1)[-3:].tolist()}", rep)
            return
        m1 = [np.array(mo, dtype=float).flatten() for mo in mol.hessian.normal_modes_proj]
        ntr = mol.hessian.n_tr
        numax = max(1.0, float(np.abs(fp0).max()))
        for i in range(ntr, 3 * n):
            lo = abs(fp0[i] - fp0[i - 1]) if i > ntr else np.inf
            hi = abs(fp0[i + 1] - fp0[i]) if i + 1 < 3 * n else np.inf
            if min(lo, hi) < 1e-3 * numax or abs(fp0[i]) < 1e-3 * numax:
                ctx.hist("reorder-oracle", "mode-skipped(degenerate)")
                continue
            want = m0[i].reshape(n, 3)[order].flatten()
            if abs(abs(want @ m1[i]) - 1.0) > 1e-6:
                fail("Species.reorder_atoms|modes", f"{label}: projected mode {i} is not the relabelled original after reorder_atoms({mapping}): "
                     f"|overlap| = {abs(want @ m1[i])!r}", rep)
                break
    except Exception as e:  # noqa
        fail(f"Species.reorder_atoms|exception:{type(e).__name__}", f"{label}: reorder_atoms({mapping}) raised {type(e).__name__}: {str(e)[:200]}", rep)


def oracle_reorder(ctx, fail):
    rng = ctx.rng
    for n in (3, 4):
        X = gen_geometry(rng, n, "general")
        symbols = rng.sample(ELEMENTS, n)                  # all different: masses distinguish the atoms
        pairs = gen_network(rng, X, stationary=True)
        for image in itertools.permutations(range(n)):
            mapping = {i: image[i] for i in range(n)}
            invol = all(image[image[i]] == i for i in range(n))
            ctx.count("reorder-oracle", (n, image), nontrivial=not invol, sample={"n_atoms": n, "mapping": list(image)})
            ctx.hist("reorder-oracle", f"n={n}:" + ("self-inverse" if invol else "not-self-inverse"))
            units = [u.name for u in Hessian.implemented_units]
            k = sum(image) + len(image) * image[0]
            reorder_case(ctx, fail, symbols, X, pairs, mapping, f"reorder-{n}-{''.join(symbols)}", unit=units[k % len(units)], functional=(k % 2 == 1))
    if not ctx.quick:
        for n in (5, 6, 8, 10, 13):
            X = gen_geometry(rng, n, "general")
            symbols = [rng.choice(ELEMENTS) for _ in range(n)]
            pairs = gen_network(rng, X, stationary=True)
            done = 0
            while done < 6:
                image = list(range(n))
                rng.shuffle(image)
                if all(image[image[i]] == i for i in range(n)):
                    continue
                done += 1
                ctx.count("reorder-oracle", (n, tuple(image)), nontrivial=True)
                ctx.hist("reorder-oracle", f"n={n}:not-self-inverse")
                reorder_case(ctx, fail, symbols, X, pairs, {i: image[i] for i in range(n)}, f"reorder-{n}-{''.join(symbols)}")


# ============================================================================================ oracle A3: rigid motions through the public API
def kabsch(P, Q):
    """proper rotation R and residual with Q_c ~ P_c R^T (centred coordinates)"""
    Pc, Qc = P - P.mean(0), Q - Q.mean(0)
    U, _, Vt = np.linalg.svd(Pc.T @ Qc)
    d = np.sign(np.linalg.det(Vt.T @ U.T))
    R = Vt.T @ np.diag([1.0, 1.0, d]) @ U.T
    return R, float(np.abs(Pc @ R.T - Qc).max())


def motion_case(ctx, fail, symbols, X, pairs, steps, label, unit="Ha Å^-2", functional=False, frame=None):
    """A species carrying its analytic Hessian is moved with Species.rotate / translate; `steps` is a list of
    ("q",) (query frequencies and all modes), ("r", axis, theta, origin) or ("t", vec).  After every motion that is
    followed by a query (and at the end) the Hessian, frequencies and modes must be those of the CURRENT frame."""
    n = len(symbols)
    X = np.asarray(X, dtype=float)
    rep = {"kind": "motion-case", "symbols": list(symbols), "coords": X.tolist(), "pairs": [list(p) for p in pairs],
           "steps": [[st[0]] + [np.asarray(a, dtype=float).tolist() if not np.isscalar(a) and a is not None else a for a in st[1:]] for st in steps],
           "label": label, "unit": unit, "functional": bool(functional), "frame": frame}
    try:
        from autode.wrappers.keywords.functionals import pbe0
        fun = pbe0 if functional else None
        H0 = MockNet("ref", pairs).hess(X.flatten())
        # `frame` = integer quaternion: the Hessian is handed over bound to its OWN atoms in another orientation (as
        # Gaussian's standard orientation): matrix R1 H R1^T with atoms R1 x + t1; it must then move WITH the species
        R1 = np.eye(3) if frame is None else rot_from_quat(*frame)
        t1 = np.zeros(3) if frame is None else np.array([0.5, -1.25, 2.0])

        def stored(at):
            Hf = np.kron(np.eye(n), R1) @ H0 @ np.kron(np.eye(n), R1).T
            if frame is not None:
                at = Atoms([Atom(a.label, *map(float, R1 @ np.array(a.coord, dtype=float) + t1)) for a in at])
            return Hessian(np.array(Hessian(Hf, units="Ha Å^-2").to(unit)), atoms=at, units=unit, functional=fun)
        ref = make_molecule(symbols, X)
        ref.hessian = stored(ref.atoms)
        f0 = floats(ref.frequencies)
        m0 = [np.kron(np.eye(n), R1.T) @ np.array(ref.normal_mode(i), dtype=float).flatten() for i in range(3 * n)]   # in the frame of X
        ntr = ref.hessian.n_tr
        numax = max(1.0, float(np.abs(f0).max()))
        plain, _, _, _ = ref_freqs(H0, ref.atoms, scale=(pbe0.freq_scale_factor if functional else 1.0))
        if not spec_close(f0[ntr:], plain)[0]:
            fail("Species.frequencies|unit-or-functional", f"{label}: frequencies of a species whose Hessian is stored in {unit}"
                 f"{' with a functional' if functional else ''} differ from the reference spectrum", rep)
            return
        main_mol = make_molecule(symbols, X)
        main_mol.hessian = stored(main_mol.atoms)
        mol = main_mol
        copies = []

        def check(done, mol=None, what="species"):
            mol = main_mol if mol is None else mol
            Xc = np.array(mol.coordinates, dtype=float)
            R, res = kabsch(X, Xc)
            tag = f"{label} [{what}, Hessian in {unit}] after {done}"
            if res > 1e-9:
                fail("Species.rotate|not-rigid", f"{tag}: coordinates are not a rigid image of the original (residual {res:.2e})", rep)
                return False
            if mol.hessian.atoms is None:
                fail("Species.hessian|atoms-not-attached", f"{tag}: the Hessian has no atoms", rep)
                return False
            ha0 = np.array([a.coord for a in mol.hessian.atoms], dtype=float)
            if frame is not None:
                # the Hessian lives in the frame of its own atoms: they must have undergone the species' motion
                Rf, resf = kabsch(X, ha0)
                if resf > 1e-9 or np.abs(Rf - R @ R1).max() > 1e-8:
                    fail("Species.rotate|hessian-frame-atoms-not-moved", f"{tag}: the Hessian's own atoms (given in another orientation) did not follow "
                         f"the species' motion (residual {resf:.2e}, rotation mismatch {np.abs(Rf - R @ R1).max():.2e})", rep)
                    return False
                R, Xc = Rf, ha0
            full = np.kron(np.eye(n), R)
            if mol.hessian.units != unit:
                fail("Species.rotate|hessian-units-changed", f"{tag}: the Hessian's unit is now {mol.hessian.units.name}", rep)
                return False
            Hc = np.array(mol.hessian.to("Ha Å^-2"), dtype=float)
            if np.abs(Hc - full @ H0 @ full.T).max() > 1e-8:
                fail("Species.rotate|hessian-not-rotated", f"{tag}: the stored Hessian is not R H R^T (max deviation {np.abs(Hc - full @ H0 @ full.T).max():.3e})", rep)
                return False
            ha = np.array([a.coord for a in mol.hessian.atoms], dtype=float) if mol.hessian.atoms is not None else None
            # (a common translation of the frame atoms is immaterial: projection and modes are translation invariant)
            if ha is None or np.abs((ha - Xc) - (ha - Xc)[0]).max() > 1e-9:
                fail("Species.hessian|atoms-of-another-geometry", f"{tag}: the atoms the Hessian projects with are not a translate of the species' atoms "
                     f"(max difference {('no atoms' if ha is None else format(np.abs((ha - Xc) - (ha - Xc)[0]).max(), '.3e'))})", rep)
                return False
            f1 = floats(mol.frequencies)
            vf = mol.vib_frequencies
            if vf is None or not np.array_equal(floats(vf), f1[ntr:]):
                fail("Species.vib_frequencies|count", f"{tag}: vib_frequencies has {None if vf is None else len(vf)} entries, frequencies[{ntr}:] has {len(f1) - ntr}", rep)
                return False
            im = mol.imaginary_frequencies
            if (0 if im is None else len(im)) != int((f1 < 0).sum()):
                fail("Species.imaginary_frequencies|count", f"{tag}: {0 if im is None else len(im)} imaginary frequencies reported, {int((f1 < 0).sum())} negative", rep)
                return False
            if not spec_close(f1, f0)[0]:
                fail("Species.frequencies|changed-by-rigid-motion", f"{tag}: frequencies changed: {np.sort(f0)[-3:].tolist()} -> {np.sort(f1)[-3:].tolist()}", rep)
                return False
            m1 = [np.array(mol.normal_mode(i), dtype=float).flatten() for i in range(3 * n)]
            atoms = mol.hessian.atoms if frame is not None else mol.atoms
            _, _, Ttr, _ = ref_freqs(Hc, atoms)
            V = np.array(m1[ntr:])
            if any(np.abs(v).max() != 0.0 for v in m1[:ntr]):
                fail("Species.normal_mode|tr-modes-nonzero", f"{tag}: the first {ntr} modes are not zero", rep)
                return False
            if len(V):
                if np.abs(V @ V.T - np.eye(len(V))).max() > 1e-8:
                    fail("Species.normal_mode|not-orthonormal", f"{tag}: modes are not orthonormal", rep)
                    return False
                ov = float(np.abs(V @ Ttr).max())
                if ov > 1e-8:
                    fail("Species.normal_mode|net-translation-rotation", f"{tag}: a mode overlaps a mass-weighted translation/rotation of the CURRENT "
                         f"geometry by {ov:.2e} (modes of an earlier frame?)", rep)
                    return False
                mk = np.repeat([float(a.mass) for a in atoms], 3) * AMU_KG
                F = (Hc * EH_J / 1e-20) / np.sqrt(np.outer(mk, mk))
                for i in range(ntr, 3 * n):
                    ray = m1[i] @ F @ m1[i]
                    nu = np.sign(ray) * math.sqrt(abs(ray)) / (2 * math.pi * C_CM) * (pbe0.freq_scale_factor if functional else 1.0)
                    if abs(nu - f1[i]) > 1e-6 * max(abs(f1[i]), 1.0) + 2e-7 * numax:
                        fail("Species.normal_mode|not-eigenvector-of-current-hessian", f"{tag}: mode {i} has Rayleigh wavenumber {float(nu)!r} in the current "
                             f"frame but frequency {float(f1[i])!r}", rep)
                        return False
                    lo = abs(f0[i] - f0[i - 1]) if i > ntr else np.inf
                    hi = abs(f0[i + 1] - f0[i]) if i + 1 < 3 * n else np.inf
                    if min(lo, hi) < 1e-3 * numax or abs(f0[i]) < 1e-3 * numax:
                        ctx.hist("motion-oracle", "mode-skipped(degenerate)")
                        continue
                    if abs(abs((full @ m0[i]) @ m1[i]) - 1.0) > 1e-6:
                        fail("Species.normal_mode|not-co-rotated", f"{tag}: mode {i} is not R.(original mode): |overlap| = {abs((full @ m0[i]) @ m1[i])!r}", rep)
                        return False
            return True

        done = []
        moved = False
        for st in steps:
            if st[0] == "q":
                if moved:
                    if not check("; ".join(done)):
                        return
                else:
                    _ = mol.frequencies, [mol.normal_mode(i) for i in range(3 * n)]
                done.append("query")
            elif st[0] == "c":
                copies.append((mol.copy(), "; ".join(done) or "start"))
                done.append("copy")
            elif st[0] == "r":
                mol.rotate(axis=np.array(st[1], dtype=float), theta=float(st[2]), origin=None if st[3] is None else np.array(st[3], dtype=float))
                done.append(f"rotate(axis={list(st[1])}, theta={st[2]}, origin={None if st[3] is None else list(st[3])})")
                moved = True
            else:
                mol.translate(vec=np.array(st[1], dtype=float))
                done.append(f"translate({list(st[1])})")
                moved = True
        if not check("; ".join(done)):
            return
        for k, (cp, when) in enumerate(copies):      # a copy must be unaffected by what happened to the original afterwards
            if not check("; ".join(done), mol=cp, what=f"copy taken after [{when}]"):
                return
    except Exception as e:  # noqa
        fail(f"Species.rotate|exception:{type(e).__name__}", f"{label}: the motion sequence raised {type(e).__name__}: {str(e)[:200]}", rep)


def oracle_motions(ctx, fail):
    rng = ctx.rng

    def rot():
        ax = [rng.randint(-4, 4) for _ in range(3)]
        if not any(ax):
            ax = [1, 2, -1]
        org = None if rng.random() < 0.5 else [rng.randint(-16, 16) / 8 for _ in range(3)]
        return ("r", ax, rng.choice([0.5, 1.25, 2.0, -0.75, 3.0]), org)

    def tr():
        return ("t", [rng.randint(-24, 24) / 8 for _ in range(3)])

    plans = [(3, "general", False), (3, "linear", False), (4, "general", True), (5, "planar", False)] + ([] if ctx.quick else [(4, "linear", False)]) + ([] if ctx.quick else [(6, "general", True), (8, "general", False), (4, "planar", True)])
    for (n, shp, saddle) in plans:
        X = gen_geometry(rng, n, shp)
        symbols = rng.sample(ELEMENTS, n)
        pairs = gen_network(rng, X, stationary=True, saddle=saddle)
        seqs = {
            "query,rotate": [("q",), rot()],
            "rotate": [rot()],
            "query,translate,query,rotate,query,rotate": [("q",), tr(), ("q",), rot(), ("q",), rot()],
            "rotate,translate,rotate(no queries)": [rot(), tr(), rot()],
            "rotate,query,translate,rotate": [rot(), ("q",), tr(), rot()],
            "query,rotate,rotate,translate": [("q",), rot(), rot(), tr()],
            "copy,rotate": [("c",), rot()],
            "query,copy,rotate,translate,copy,rotate": [("q",), ("c",), rot(), tr(), ("c",), rot()],
        }
        if not ctx.quick:
            for k in range(4):
                seqs[f"random{k}"] = [rng.choice([("q",), ("c",), rot(), tr(), rot()]) for _ in range(rng.randint(3, 7))]
        units = [u.name for u in Hessian.implemented_units]
        for k, (name, steps) in enumerate(seqs.items()):
            unit = units[(k + n) % len(units)]
            ctx.count("motion-oracle", (n, shp, name, repr(steps), unit), nontrivial=any(st[0] == "r" for st in steps),
                      sample={"n_atoms": n, "sequence": name, "unit": unit})
            ctx.hist("motion-oracle", name if not name.startswith("random") else "random")
            ctx.hist("motion-oracle", "unit:" + unit)
            motion_case(ctx, fail, symbols, X, pairs, steps, f"motion-{n}-{''.join(symbols)}[{name}]", unit=unit, functional=(k % 2 == 1))
        if shp != "linear":
            ctx.count("motion-oracle", (n, shp, "own-frame"), nontrivial=True, sample={"n_atoms": n, "sequence": "Hessian bound to its own atoms in another orientation"})
            ctx.hist("motion-oracle", "hessian-own-frame")
            motion_case(ctx, fail, symbols, X, pairs, [("q",), rot(), tr(), ("c",), rot()], f"motion-{n}-{''.join(symbols)}[own-frame]",
                        unit=units[n % len(units)], functional=False, frame=(2, -1, 3, 1))

# ============================================================================================ oracle B: numerical Hessians
def fd_bounds(net, x, h):
    """max |d3E| and |d4E| relevant to the rows, from finite differences of the ANALYTIC Hessian."""
    d = len(x)
    t3 = t4 = 0.0
    for r in range(d):
        e = np.zeros(d)
        e[r] = 1.0
        Hp, Hm, H0 = net.hess(x + 1e-3 * e), net.hess(x - 1e-3 * e), net.hess(x)
        t3 = max(t3, np.abs((Hp[r] - Hm[r]) / 2e-3).max())
        t4 = max(t4, np.abs((Hp[r] - 2 * H0[r] + Hm[r]) / 1e-6).max())
    return 0.75 * h * t3 + 1e-9, 0.25 * h * h * t4 + 1e-8


def shift_units_oracle(ctx, fail, n, symbols, X, x, lo, hi, Hl, Hh):
    from autode.units import a0 as _a0
    for (val_, unit) in ((0.1, "pm"), (1e-4, "nm"), (0.002, "a0")):
        hA = float(Distance(val_, units=unit).to("Å"))
        bf, bc = fd_bounds(hi, x, hA)
        for cdiff in (False, True):
            ctx.count("numhess-oracle", ("shift-unit", n, unit, cdiff), nontrivial=True, sample={"n_atoms": n, "shift": [val_, unit], "central": cdiff})
            ctx.hist("numhess-oracle", f"shift-unit:{unit}")
            rep = numhess_replay(symbols, X, [hi], scheme="central" if cdiff else "forward", shift=[val_, unit], n_cores=1)
            res = safe_calc(fail, ("full", symbols, X, [hi], (), cdiff, (val_, unit), 1), rep, f"{n} atoms, shift {val_} {unit}")
            if res is None or res == "ValueError":
                continue
            rows, raw, sym = res
            bound = bc if cdiff else bf
            if np.abs(raw - Hh).max() > bound:
                ratio = float(np.abs(raw).max() / np.abs(Hh).max())
                fail("NumericalHessianCalculator|shift-unit", f"{n} atoms, {'central' if cdiff else 'forward'} differences with shift = {val_} {unit} (= {hA:.6g} A): the Hessian "
                     f"deviates from the analytic one by {np.abs(raw - Hh).max():.3e} > {bound:.3e} (it is scaled by about {ratio:.4g})", rep)
        sub = (0,)
        rep = numhess_replay(symbols, X, [lo, hi], hybrid_idxs=list(sub), shift=[val_, unit], n_cores=1)
        ctx.count("numhess-oracle", ("shift-unit-hybrid", n, unit), nontrivial=True)
        res = safe_calc(fail, ("hybrid", symbols, X, [lo, hi], sub, False, (val_, unit), 1), rep, f"{n} atoms hybrid, shift {val_} {unit}")
        if res not in (None, "ValueError"):
            rows, raw, sym = res
            hr = [0, 1, 2]
            want = np.where(np.isin(np.arange(3 * n), hr)[:, None], Hh, Hl)
            if np.abs(raw - want).max() > bf:
                fail("HybridHessianCalculator|shift-unit", f"{n} atoms, idxs=(0,), shift = {val_} {unit}: raw rows deviate from the analytic high/low rows by "
                     f"{np.abs(raw - want).max():.3e} > {bf:.3e}", rep)
        try:
            mol = make_molecule(symbols, X)
            ctx.count("numhess-oracle", ("shift-unit-calc_hessian", n, unit), nontrivial=True)
            mol.calc_hessian(method=hi, numerical=True, use_central_differences=True, coordinate_shift=Distance(val_, units=unit), n_cores=1)
            Hs = np.array(mol.hessian, dtype=float)
            if np.abs(Hs - Hh).max() > bc:
                fail("Species.calc_hessian|shift-unit", f"{n} atoms: calc_hessian(numerical=True, coordinate_shift=Distance({val_}, '{unit}')) deviates from the "
                     f"analytic Hessian by {np.abs(Hs - Hh).max():.3e} > {bc:.3e}",
                     numhess_replay(symbols, X, [hi], entry="Species.calc_hessian", scheme="central", shift=[val_, unit], n_cores=1))
        except Exception as e:  # noqa
            fail(f"Species.calc_hessian|exception:{type(e).__name__}", f"{n} atoms, coordinate_shift in {unit}: {type(e).__name__}: {str(e)[:200]}",
                 numhess_replay(symbols, X, [hi], entry="Species.calc_hessian", shift=[val_, unit]))


def numhess_replay(symbols, X, nets, **kw):
    d = {"kind": "numhess-case", "symbols": list(symbols), "coords": np.asarray(X).tolist(),
         "pairs": [[list(p) for p in net.pairs] for net in nets]}
    d.update(kw)
    return d


def oracle_numhess(ctx, fail):
    rng = ctx.rng
    nmax = 4 if ctx.quick else 5
    for n in range(2, nmax + 1):
        X = gen_geometry(rng, n, "general" if n > 2 else "linear")
        symbols = [rng.choice(["H", "C", "N", "O", "F"]) for _ in range(n)]
        hi = MockNet("mockh", gen_network(rng, X, stationary=False))
        lo = MockNet("mockl", [(i, j, k, 0.5 * p1, p2 * 0.9, r0 * 1.02) for (i, j, k, p1, p2, r0) in hi.pairs])
        x = X.flatten()
        Hh, Hl = hi.hess(x), lo.hess(x)
        for h in ((1e-3,) if ctx.quick else (1e-3, 2e-3)):
            bf, bc = fd_bounds(hi, x, h)
            errs = {}
            for cdiff in (False, True):
                bound = bc if cdiff else bf
                variants = [(1, False), (2, False), (4, False), (1, True)] + ([(8 * n, False)] if n == 2 or not ctx.quick else [])
                for (nc, child) in variants:
                    tag = "serial-child" if child else f"cores{nc}"
                    ctx.count("numhess-oracle", (n, h, cdiff, tag), nontrivial=True,
                              sample={"n_atoms": n, "scheme": "central" if cdiff else "forward", "variant": tag})
                    ctx.hist("numhess-oracle", f"{'central' if cdiff else 'forward'}:{tag}")
                    rep = numhess_replay(symbols, X, [hi], scheme="central" if cdiff else "forward", shift=h, n_cores=nc, serial_child=child)
                    res = safe_calc(fail, ("full", symbols, X, [hi], (), cdiff, h, nc), rep, f"{n} atoms, {'central' if cdiff else 'forward'}, {tag}", in_child=child)
                    if res is None or res == "ValueError":
                        errs[(cdiff, tag)] = float("inf")
                        continue
                    rows, raw, sym = res
                    if sorted(rows) != list(range(3 * n)) or len(rows) != 3 * n:
                        fail("NumericalHessianCalculator|rows-recorded", f"{n} atoms {tag}: _calculated_rows = {rows}", rep)
                    e_raw = np.abs(raw - Hh).max()
                    errs[(cdiff, tag)] = e_raw
                    ref_raw, ref_sym = reference_fd(hi, x, h, cdiff)
                    if np.abs(raw - ref_raw).max() > 1e-7 or np.abs(sym - ref_sym).max() > 1e-7:
                        fail("NumericalHessianCalculator|not-the-finite-difference", f"{n} atoms, {'central' if cdiff else 'forward'}, h={h}, {tag}: the rows differ from "
                             f"the {'central' if cdiff else 'forward'} differences of the gradient by {np.abs(raw - ref_raw).max():.3e}", rep)
                    if e_raw > bound:
                        r = int(np.argmax(np.abs(raw - Hh).max(axis=1)))
                        fail("NumericalHessianCalculator|row-values", f"{n} atoms, {'central' if cdiff else 'forward'} differences, h={h}, {tag}: raw row {r} "
                             f"(atom {r // 3}, component {r % 3}) deviates from the analytic Hessian by {e_raw:.3e} > scheme bound {bound:.3e}", rep)
                    if not np.array_equal(sym, sym.T):
                        fail("NumericalHessianCalculator.hessian|not-symmetric", f"{n} atoms {tag}: returned Hessian is not symmetric (max |H-H^T| = {np.abs(sym - sym.T).max():.3e})", rep)
                    if np.abs(sym - Hh).max() > bound:
                        fail("NumericalHessianCalculator.hessian|values", f"{n} atoms {tag}: returned Hessian deviates from the analytic one by {np.abs(sym - Hh).max():.3e} > {bound:.3e}", rep)
            if errs[(True, "cores1")] >= errs[(False, "cores1")] and errs[(False, "cores1")] != float("inf"):
                fail("NumericalHessianCalculator|central-not-more-accurate", f"{n} atoms: central differences error {errs[(True, 'cores1')]:.3e} >= forward {errs[(False, 'cores1')]:.3e}",
                     numhess_replay(symbols, X, [hi], shift=h))
            if n <= 3:
                fault_oracle(ctx, fail, n, symbols, X, hi, Hh, ctx.work)
            # the shift given as a Distance in another unit (0.1 pm = 1e-4 nm = 1e-3 A; 0.002 a0)
            if n <= 3:
                shift_units_oracle(ctx, fail, n, symbols, X, x, lo, hi, Hl, Hh)
            # hybrid: every subset of atoms
            subsets = [s for k in range(n + 1) for s in itertools.combinations(range(n), k)]
            for si, sub in enumerate(subsets):
                cores = (1, 2, 4) if (not ctx.quick or n <= 3) else ((1, 2, 4)[si % 3],)
                for nc in cores:
                    ctx.count("numhess-oracle", ("hybrid", n, h, sub, nc), nontrivial=(0 < len(sub) < n),
                              sample={"n_atoms": n, "hybrid_idxs": list(sub), "n_cores": nc})
                    ctx.hist("numhess-oracle", f"hybrid:|idxs|={len(sub)}")
                    rep = numhess_replay(symbols, X, [lo, hi], hybrid_idxs=list(sub), shift=h, n_cores=nc)
                    in_child = (si == 1 and nc == cores[0])          # the serial branch (calculate() inside a worker process)
                    if in_child:
                        ctx.hist("numhess-oracle", "hybrid:serial-child")
                    res = safe_calc(fail, ("hybrid", symbols, X, [lo, hi], sub, False, h, nc), rep, f"{n} atoms, hybrid idxs={sub}, n_cores={nc}", in_child=in_child)
                    if res is None or res == "ValueError":
                        if res == "ValueError":
                            fail("HybridHessianCalculator|valid-idxs-rejected", f"{n} atoms: idxs={sub} rejected with ValueError", rep)
                        continue
                    rows, raw, sym = res
                    hr = [3 * a + k for a in sub for k in range(3)]
                    lr = [r for r in range(3 * n) if r not in hr]
                    if sorted(rows) != list(range(3 * n)) or len(rows) != 3 * n:
                        fail("HybridHessianCalculator|rows-recorded", f"idxs={sub}: _calculated_rows = {rows}", rep)
                    want = np.where(np.isin(np.arange(3 * n), hr)[:, None], Hh, Hl)
                    if np.abs(raw - want).max() > bf:
                        r = int(np.argmax(np.abs(raw - want).max(axis=1)))
                        src = "high" if r in hr else "low"
                        other = "low" if r in hr else "high"
                        wrong = np.abs(raw[r] - (Hl if r in hr else Hh)[r]).max() <= bf
                        fail("HybridHessianCalculator|row-placement", f"{n} atoms, idxs={sub}, n_cores={nc}: raw row {r} (atom {r // 3}) should hold the {src}-level "
                             f"differences but deviates by {np.abs(raw[r] - want[r]).max():.3e}" + (f" (it holds the {other}-level row)" if wrong else ""), rep)
                        continue
                    if not np.array_equal(sym, sym.T):
                        fail("HybridHessianCalculator.hessian|not-symmetric", f"idxs={sub}: returned Hessian is not symmetric", rep)
                    if hr and np.abs(sym[np.ix_(hr, hr)] - Hh[np.ix_(hr, hr)]).max() > bf:
                        fail("HybridHessianCalculator.hessian|high-block", f"idxs={sub}: block of the requested atoms deviates from the high-level Hessian", rep)
                    if lr and np.abs(sym[np.ix_(lr, lr)] - Hl[np.ix_(lr, lr)]).max() > bf:
                        fail("HybridHessianCalculator.hessian|low-block", f"idxs={sub}: block of the other atoms deviates from the low-level Hessian", rep)
                    if hr and lr:
                        mixed = sym[np.ix_(lr, hr)]            # columns of the requested atoms at the other atoms' rows
                        dev = np.abs(mixed - Hh[np.ix_(lr, hr)]).max()
                        margin = np.abs(Hh[np.ix_(lr, hr)] - Hl[np.ix_(lr, hr)]).max() / 2
                        if margin < 20 * bf:
                            ctx.hist("numhess-oracle", "hybrid-mixed-block-margin-skipped")
                        elif dev > bf:
                            avg = (Hh[np.ix_(lr, hr)] + Hl[np.ix_(lr, hr)]) / 2
                            if np.abs(mixed - avg).max() <= bf:
                                c0 = hr[int(np.argmax(np.abs(mixed - Hh[np.ix_(lr, hr)]).max(axis=0)))]
                                r0 = lr[int(np.argmax(np.abs(sym[lr, c0] - Hh[lr, c0])))]
                                fail(KEY_COLUMNS, f"{n} atoms, idxs={sub}: after symmetrisation the columns of the requested atoms hold the MEAN of the high- and "
                                     f"low-level values, e.g. H[{r0},{c0}] = {sym[r0, c0]!r}, high-level {Hh[r0, c0]!r}, low-level {Hl[r0, c0]!r}", rep)
                            else:
                                fail("HybridHessianCalculator.hessian|mixed-block", f"idxs={sub}: the requested atoms' columns are neither the high-level values nor the "
                                     f"high/low mean (deviation {dev:.3e})", rep)
        try:
            entry_points(ctx, fail, n, symbols, X, x, hi, Hh)
        except Exception as e:  # noqa
            fail(f"Species.calc_hessian|exception:{type(e).__name__}", f"{n} atoms: numerical Hessian through the public entry points raised "
                 f"{type(e).__name__}: {str(e)[:200]}", numhess_replay(symbols, X, [hi], entry="calc_hessian / Calculation(HessianKeywords)"))


def entry_points(ctx, fail, n, symbols, X, x, hi, Hh):
    """the public entry points that request numerical Hessians (species.py, executors.py)"""
    if True:
        mol = make_molecule(symbols, X)
        ctx.count("numhess-oracle", ("calc_hessian", n), nontrivial=True)
        mol.calc_hessian(method=hi, numerical=True, use_central_differences=True, coordinate_shift=Distance(1e-3, units="Å"), n_cores=2)
        bf, bc = fd_bounds(hi, x, 1e-3)
        Hs = np.array(mol.hessian, dtype=float)
        rep = numhess_replay(symbols, X, [hi], entry="Species.calc_hessian(numerical=True, use_central_differences=True)")
        if np.abs(Hs - Hh).max() > bc or not np.array_equal(Hs, Hs.T):
            fail("Species.calc_hessian|numerical", f"{n} atoms: Species.calc_hessian(numerical) deviates from the analytic Hessian by {np.abs(Hs - Hh).max():.3e}", rep)
        if mol.hessian.atoms is None or [float(v) for v in mol.frequencies] != [float(v) for v in mol.hessian.frequencies_proj]:
            fail("Species.frequencies|not-projected", f"{n} atoms: Species.frequencies differs from hessian.frequencies_proj", rep)
        # forward differences with a plain float shift, requested as an ANALYTIC Hessian from a method that has none
        mol3 = make_molecule(symbols, X)
        ctx.count("numhess-oracle", ("calc_hessian-override", n), nontrivial=True)
        mol3.calc_hessian(method=hi, numerical=False, coordinate_shift=1e-3, n_cores=1)
        _, ref_sym = reference_fd(hi, x, 1e-3, False)
        Hs3 = np.array(mol3.hessian, dtype=float)
        if np.abs(Hs3 - ref_sym).max() > 1e-7:
            fail("Species.calc_hessian|not-the-finite-difference", f"{n} atoms: calc_hessian(method without Hessians, coordinate_shift=1e-3 as float) differs from the "
                 f"forward differences with h = 1e-3 A by {np.abs(Hs3 - ref_sym).max():.3e}", numhess_replay(symbols, X, [hi], entry="Species.calc_hessian", shift=1e-3))
        # a Hessian handed over without atoms gets the species' atoms
        mol4 = make_molecule(symbols, X)
        mol4.hessian = Hessian(Hh.copy(), units="Ha Å^-2")
        ctx.count("numhess-oracle", ("hessian-setter-no-atoms", n), nontrivial=True)
        f4 = floats(mol4.frequencies)
        fr4, ntr4, _, _ = ref_freqs(Hh, mol4.atoms)
        if not spec_close(f4[len(f4) - len(fr4):], fr4)[0]:
            fail("Species.hessian|atoms-not-attached", f"{n} atoms: frequencies of a species given a Hessian without atoms differ from the reference", rep)
        from autode.calculations import Calculation
        from autode.wrappers.keywords import HessianKeywords
        mol2 = make_molecule(symbols, X)
        ctx.count("numhess-oracle", ("executorH", n), nontrivial=True)
        calc = Calculation(name="c11h", molecule=mol2, method=hi, keywords=HessianKeywords(), n_cores=2)
        calc.run()
        Hs = np.array(mol2.hessian, dtype=float)
        bf2, _ = fd_bounds(hi, x, 2e-3)
        _, ref_sym2 = reference_fd(hi, x, 2e-3, False)
        if np.abs(Hs - ref_sym2).max() > 1e-7:
            fail("CalculationExecutorH|not-the-documented-scheme", f"{n} atoms: the executor's Hessian differs from forward differences with h = 2e-3 A by "
                 f"{np.abs(Hs - ref_sym2).max():.3e}", numhess_replay(symbols, X, [hi], entry="Calculation(HessianKeywords)", shift=2e-3))
        if np.abs(Hs - Hh).max() > bf2 or not np.array_equal(Hs, Hs.T):
            fail("CalculationExecutorH|numerical", f"{n} atoms: Hessian calculation with a gradient-only method deviates from the analytic Hessian by {np.abs(Hs - Hh).max():.3e}",
                 numhess_replay(symbols, X, [hi], entry="Calculation(HessianKeywords) with a method that implements no Hessian"))


# ============================================================================================ correspondence
def dyadic(rng, lo, hi, den):
    return rng.randint(lo * den, hi * den) / den


def poly_methods(rng, d):
    A = [[dyadic(rng, -2, 2, 4) for _ in range(d)] for _ in range(d)]
    B = [[dyadic(rng, -2, 2, 4) for _ in range(d)] for _ in range(d)]
    c1, c2 = [dyadic(rng, -1, 1, 2) for _ in range(d)], [dyadic(rng, -1, 1, 2) for _ in range(d)]
    q1, q2 = [dyadic(rng, -1, 1, 2) for _ in range(d)], [dyadic(rng, -1, 1, 2) for _ in range(d)]
    return MockPoly("mockl", A, c1, q1), MockPoly("mockh", B, c2, q2)


def obs_term(o):
    rows, raw, sym = o
    return f"({coq_list([coq_nat(r) for r in rows])}, {qc_mat(raw.tolist())}, {qc_mat(sym.tolist())})"


def correspondence_terms(ctx, fail):
    """Run the implementation on the correspondence inputs -> (Coq bool terms, descriptions)."""
    rng = ctx.rng
    terms, descr = [], []
    heavy = []

    def rc(args, in_child=False):
        res = safe_calc(fail, args, {"kind": "correspondence-input", "args": repr(args)[:1500]}, f"correspondence input {args[0]} {len(args[1])} atoms", in_child)
        return res

    def obs_list(obs, opt=False):
        # an observation that raised is recorded as a disagreeing case
        if any(o is None for o in obs):
            return None
        if opt:
            return coq_list(["None" if o == "ValueError" else "(Some " + obs_term(o) + ")" for o in obs])
        return coq_list([obs_term(o) for o in obs])

    def add(term, d, key, nontrivial=True):
        terms.append(term)
        descr.append(d)
        ctx.count("model-vs-impl", key, nontrivial, sample=d)
        ctx.hist("model-vs-impl", d["kind"])

    nmax = 4
    h = 1 / 64
    for n in range(1, nmax + 1):
        d = 3 * n
        symbols = [["H", "C", "O", "N"][k % 4] for k in range(n)]
        X = np.array([[dyadic(rng, -2, 2, 8) + 3 * k for _ in range(3)] for k in range(n)])   # well separated, dyadic
        lo, hi = poly_methods(rng, d)
        tabs = coq_list([lo.coq(d), hi.coq(d)])
        xq = qc_list(X.flatten().tolist())
        zeros = qc_mat([[0.0] * d for _ in range(d)])
        for cdiff in (False, True):
            obs = [rc(("full", symbols, X, [lo], (), cdiff, h, nc)) for nc in (1, 2, 4)]
            obs.append(rc(("full", symbols, X, [lo], (), cdiff, h, 1), in_child=True))
            ol = obs_list(obs)
            add("false" if ol is None else
                f"check_calc {coq_nat(n)} {coq_bool(cdiff)} {tabs} 0%nat {xq} {qc(h)} [] {zeros} {ol}",
                {"kind": "calculate", "n_atoms": n, "central": cdiff, "variants": ["cores1", "cores2", "cores4", "serial-child"],
                 "symbols": symbols, "coords": X.tolist(), "A": lo.A.tolist(), "c": lo.c.tolist(), "q": lo.q.tolist(), "shift": h},
                ("calc", n, cdiff))
            # resumed calculator: some rows already recorded, non-zero contents
            for _ in range(1 if ctx.quick else 3):
                calc0 = [r for r in range(d) if rng.random() < 0.4]
                rng.shuffle(calc0)
                H0 = [[dyadic(rng, -2, 2, 4) for _ in range(d)] for _ in range(d)]
                obs = [rc(("full", symbols, X, [hi], (), cdiff, h, nc, calc0, H0)) for nc in (1, 2)]
                ol = obs_list(obs)
                add("false" if ol is None else
                    f"check_calc {coq_nat(n)} {coq_bool(cdiff)} {tabs} 1%nat {xq} {qc(h)} {coq_list([coq_nat(r) for r in calc0])} {qc_mat(H0)} {ol}",
                    {"kind": "calculate-resumed", "n_atoms": n, "central": cdiff, "calculated_rows_before": calc0,
                     "symbols": symbols, "coords": X.tolist(), "A": hi.A.tolist(), "c": hi.c.tolist(), "q": hi.q.tolist(), "shift": h, "H0": H0},
                    ("calc-resumed", n, cdiff, tuple(calc0)))
        subsets = [s for k in range(n + 1) for s in itertools.combinations(range(n), k)]
        for si, sub in enumerate(subsets):
            cores = (1, 2, 4) if not ctx.quick else ((1, 2, 4)[(si + n) % 3],)
            obs = [rc(("hybrid", symbols, X, [lo, hi], sub, False, h, nc)) for nc in cores]
            ol = obs_list(obs, opt=True)
            add("false" if ol is None else
                f"check_hybrid {coq_nat(n)} {tabs} {xq} {qc(h)} {coq_list([coq_nat(a) for a in sub])} {ol}",
                {"kind": "hybrid", "n_atoms": n, "idxs": list(sub), "n_cores": list(cores), "symbols": symbols, "coords": X.tolist(),
                 "low": {"A": lo.A.tolist(), "c": lo.c.tolist(), "q": lo.q.tolist()},
                 "high": {"A": hi.A.tolist(), "c": hi.c.tolist(), "q": hi.q.tolist()}, "shift": h},
                ("hybrid", n, sub), nontrivial=(0 < len(sub) < n))
        # an index outside the species, duplicates (a set in the implementation)
        for bad in ((n,), (0, n + 2)):
            ol = obs_list([rc(("hybrid", symbols, X, [lo, hi], bad, False, h, 1))], opt=True)
            add("false" if ol is None else
                f"check_hybrid {coq_nat(n)} {tabs} {xq} {qc(h)} {coq_list([coq_nat(a) for a in bad])} {ol}",
                {"kind": "hybrid-invalid", "n_atoms": n, "idxs": list(bad)}, ("hybrid-invalid", n, bad))
        dup = (0, 0)
        ol = obs_list([rc(("hybrid", symbols, X, [lo, hi], dup, False, h, 1))], opt=True)
        add("false" if ol is None else f"check_hybrid {coq_nat(n)} {tabs} {xq} {qc(h)} [0%nat] {ol}",
            {"kind": "hybrid-duplicate-idxs", "n_atoms": n, "idxs": list(dup)}, ("hybrid-dup", n))

    # _tr_vecs, n_tr / n_v, frequencies_proj, _mass_weighted on small molecules
    import autode.units as U
    cases = [(2, "linear"), (3, "general"), (3, "linear"), (4, "planar"), (4, "general"), (5, "general")] + ([] if ctx.quick else [(6, "general"), (4, "linear")])
    def small_case(n, shp):
        X = np.round(gen_geometry(rng, n, shp) * 64) / 64 if shp != "linear" else gen_geometry(rng, n, shp)
        symbols = [rng.choice(ELEMENTS) for _ in range(n)]
        atoms = Atoms([Atom(s, *map(float, x)) for s, x in zip(symbols, X)])
        H = MockNet("ref", gen_network(rng, X, stationary=True, saddle=(n >= 3))).hess(X.flatten())
        H = np.round(H * 2 ** 20) / 2 ** 20
        H = (H + H.T) / 2
        hs = Hessian(H.copy(), atoms=atoms, units="Ha Å^-2")
        masses = [float(a.mass) for a in atoms]
        ts = [np.array(t, dtype=float) for t in hs._tr_vecs()]
        add(f"check_tr_vecs {coq_nat(n)} {qc_list(masses)} {qc_list(X.flatten().tolist())} {qc_list(ts[0][:3].tolist())} "
            f"{qc_list(ts[1][:3].tolist())} {qc_list(ts[2][:3].tolist())} {qc_mat([t.tolist() for t in ts])}",
            {"kind": "_tr_vecs", "symbols": symbols, "coords": X.tolist()}, ("trvecs", n, shp, tuple(symbols)))
        lin = bool(atoms.are_linear())
        add(f"check_ntr {coq_nat(n)} {coq_bool(lin)} {coq_nat(hs.n_tr)} {coq_z(hs.n_v)}",
            {"kind": "n_tr", "n_atoms": n, "linear": lin}, ("ntr", n, lin))
        for (cfg, fn) in ((None, None), (0.5, None), (None, "pbe0"), (0.75, "pbe0")):
            from autode.wrappers.keywords.functionals import pbe0
            Config.freq_scale_factor = cfg
            try:
                hh = Hessian(H.copy(), atoms=atoms, units="Ha Å^-2", functional=(pbe0 if fn else None))
                np.random.seed(ctx.seed + 17)
                ntr = hh.n_tr
                lam = np.linalg.eigvalsh(hh._proj_mass_weighted[ntr:, ntr:])
                fr = [float(v) for v in hh.frequencies_proj]
            finally:
                Config.freq_scale_factor = None
            sqt = coq_list([f"({qc(abs(float(l)))}, {qc(float(np.sqrt(abs(float(l)))))})" for l in lam])
            o = lambda v: "None" if v is None else f"(Some {qc(v)})"  # noqa: E731
            add(f"check_freqs_proj {sqt} {qc(math.pi)} {o(cfg)} {o(pbe0.freq_scale_factor if fn else None)} {coq_nat(n)} {coq_bool(lin)} "
                f"{qc_list([float(l) for l in lam])} {qc_list(fr)}",
                {"kind": "frequencies_proj", "symbols": symbols, "coords": X.tolist(), "config_scale": cfg, "functional": fn},
                ("freqsproj", n, shp, cfg, fn), nontrivial=bool((lam < 0).any()) or cfg is not None or fn is not None)
        # one object accessed twice while the configured scale factor changes (cached_property)
        hq = Hessian(H.copy(), atoms=atoms, units="Ha Å^-2")
        np.random.seed(ctx.seed + 19)
        ntr = hq.n_tr
        lam = np.linalg.eigvalsh(hq._proj_mass_weighted[ntr:, ntr:])
        Config.freq_scale_factor = 0.75
        try:
            r1 = [float(v) for v in hq.frequencies_proj]
            Config.freq_scale_factor = 0.5
            r2 = [float(v) for v in hq.frequencies_proj]
        finally:
            Config.freq_scale_factor = None
        sqt = coq_list([f"({qc(abs(float(l)))}, {qc(float(np.sqrt(abs(float(l)))))})" for l in lam])
        add(f"check_twice {sqt} {qc(math.pi)} {qc(0.75)} {qc(0.5)} {coq_nat(n)} {coq_bool(lin)} {qc_list([float(l) for l in lam])} {qc_list(r1)} {qc_list(r2)}",
            {"kind": "frequencies_proj-twice", "symbols": symbols, "coords": X.tolist(), "scales": [0.75, 0.5]}, ("twice", n, shp))
        if n <= 3:
            # normal_modes_proj from the implementation's own D (qr) and S_bar (eigh); _proj_matrix columns 0..2
            hm = Hessian(H.copy(), atoms=atoms, units="Ha Å^-2")
            np.random.seed(ctx.seed + 23)
            ts2 = [np.array(t, dtype=float) for t in hm._tr_vecs()]     # same random state -> the axes _proj_matrix will use
            np.random.seed(ctx.seed + 23)
            D = np.array(hm._proj_matrix, dtype=float)
            ntr = hm.n_tr
            _, Sbar = np.linalg.eigh(hm._proj_mass_weighted[ntr:, ntr:])
            d = 3 * n
            Sp = np.zeros((d, d))
            Sp[ntr:, ntr:] = Sbar
            norms = [float(np.linalg.norm(D @ Sp[:, i])) for i in range(d)]
            modes = [np.array(mo, dtype=float).flatten().tolist() for mo in hm.normal_modes_proj]
            heavy.append(len(terms))
            add(f"check_modes {coq_nat(d)} {coq_nat(ntr)} {qc_mat(D.tolist())} {qc_mat(Sbar.tolist())} {qc_list(norms)} {qc_mat(modes)}",
                {"kind": "normal_modes_proj", "symbols": symbols, "coords": X.tolist()}, ("modes", n, shp))
            sqm = [float(np.sqrt(m_)) for m_ in masses]
            mwv = [np.repeat(np.sqrt(masses), 3) * np.tile(ts2[k][:3], n) for k in range(3)]
            nrm = [float(np.linalg.norm(v)) for v in mwv]
            add(f"check_proj_cols {coq_nat(n)} {qc_list(masses)} {qc_list(sqm)} {qc_list(ts2[0][:3].tolist())} {qc_list(ts2[1][:3].tolist())} "
                f"{qc_list(ts2[2][:3].tolist())} {qc_list(nrm)} {qc_mat([D[:, k].tolist() for k in range(3)])}",
                {"kind": "_proj_matrix-columns", "symbols": symbols, "coords": X.tolist()}, ("projcols", n, shp))
        if n <= 3:
            units = list(Hessian.implemented_units)
            if ctx.quick and n == 3:
                units = units[1:2] if shp == "linear" else units[4:5]
            for u in units:
                heavy.append(len(terms))
                h3 = Hessian(np.array(hs.to(u)), atoms=atoms, units=u)
                stored = np.array(h3, dtype=float)
                mw = np.array(h3._mass_weighted, dtype=float)
                mk = np.repeat([float(a.mass.to("kg")) for a in atoms], 3)
                sq = np.sqrt(np.outer(mk, mk))
                add(f"check_mass_weighted {coq_nat(n)} {coq_string(u.name)} {qc_mat(stored.tolist())} {qc_list(masses)} {qc_mat(sq.tolist())} {qc_mat(mw.tolist())}",
                    {"kind": "_mass_weighted", "symbols": symbols, "unit": u.name}, ("mw", n, shp, u.name))

    for (n, shp) in cases:
        try:
            small_case(n, shp)
        except Exception as e:  # noqa
            Config.freq_scale_factor = None
            fail(f"Hessian|exception:{type(e).__name__}", f"correspondence input ({n} atoms, {shp}): {type(e).__name__}: {str(e)[:200]}",
                 {"kind": "correspondence-input", "n_atoms": n, "shape": shp})
            add("false", {"kind": "implementation-exception", "n_atoms": n, "shape": shp, "error": str(e)[:200]}, ("exc", n, shp))
    # _eigenvalues_to_freqs directly: signs, zero, scale
    try:
        hs = Hessian(np.eye(6), atoms=Atoms([Atom("H"), Atom("F", x=1.0)]))
        lams = [0.0, 1.0, -1.0, 4.0e28, -4.0e28, 2.25e26, -6.25e24, 1e-30, -1e-30, 3.0e27, -3.0e27]
        for cfg in (None, 0.5, 0.96):
            Config.freq_scale_factor = cfg
            try:
                out = [float(v) for v in hs._eigenvalues_to_freqs(np.array(lams))]
            finally:
                Config.freq_scale_factor = None
            sqt = coq_list([f"({qc(abs(l))}, {qc(float(np.sqrt(abs(l))))})" for l in lams])
            add(f"check_freqs {sqt} {qc(math.pi)} {qc(1.0 if cfg is None else cfg)} {qc_list(lams)} {qc_list(out)}",
                {"kind": "_eigenvalues_to_freqs", "lambdas": lams, "scale": cfg}, ("freqs", cfg))
    except Exception as e:  # noqa
        Config.freq_scale_factor = None
        fail(f"Hessian._eigenvalues_to_freqs|exception:{type(e).__name__}", f"_eigenvalues_to_freqs raised {type(e).__name__}: {str(e)[:200]}", {"kind": "correspondence-input"})
        add("false", {"kind": "implementation-exception", "error": str(e)[:200]}, ("exc", "freqs"))
    # expensive terms first so that their shards start early
    order = heavy + [i for i in range(len(terms)) if i not in set(heavy)]
    return [terms[i] for i in order], [descr[i] for i in order]


def correspondence_eval(ctx, terms, descr):
    """Coq evaluates the model.  A coqc ERROR (not a disagreement) can be caused by another process rebuilding the shared
    .vo files at that moment: rebuild under the lock and evaluate again before believing it."""
    import time
    for attempt in range(3):
        bad, err = ctx.coq_bad_indices(PRE, terms, per_file=5, name=f"c11cases{attempt}", timeout=900)
        if not err:
            break
        ctx.log(f"correspondence: coqc error on attempt {attempt + 1}: {err.strip()[:200]}")
        time.sleep(5 + 10 * attempt)
        ctx.coq_make(["C11/Props.vo", "C11/Corr.vo"])
    return [(descr[i], terms[i]) for i in bad], err


# ============================================================================================ run
def run(ctx):
    full = not ctx.quick
    here = os.getcwd()
    os.chdir(ctx.work)
    np.random.seed(ctx.seed + 11)
    Config.n_cores = 1
    try:
        _run(ctx, full)
    finally:
        Config.freq_scale_factor = None
        os.chdir(here)


def _run(ctx, full):
    pins_changed = source_pins(ctx.pid, PINS)
    ctx.cov["source_pins"] = {"pinned": len(PINS), "changed": pins_changed}
    if pins_changed:
        ctx.log("source pins changed:", ", ".join(pins_changed))
    # 1. regenerate the generated parts of the model from the repository
    rc1, out1 = sh(["python3", f"{VERIF}/tr/translate_units.py"], timeout=120)
    rc2, out2 = sh(["python3", f"{VERIF}/tr/translate_c11.py"], timeout=120)
    ctx.log("translators:", out1.strip()[:120], "|", out2.strip()[:200])
    translated = rc1 == 0 and rc2 == 0
    ctx.cov["translator"] = {"ok": translated, "units": out1.strip()[:300], "c11": out2.strip()[:600]}
    # 2. proofs over the regenerated model
    info = {"hygiene": [], "log_tail": out1 + out2, "build_ok": False}
    proofs_ok = False
    if translated:
        import time

        def gen_sha():
            return hashlib.sha256(open(f"{VERIF}/coq/gen/C11_Gen.v", "rb").read() + open(f"{VERIF}/coq/gen/C06_Gen.v", "rb").read()).hexdigest()
        for attempt in range(3):
            sha0 = gen_sha()
            ob, di = ctx.cov["obligations"], ctx.cov["discharged"]
            proofs_ok, info = ctx.proofs(SLICE, "C11/Props.v", "AV.C11.Props", extra_targets=["C11/Corr.vo"])
            # the generated files are shared: if another check (other VERIF_REPO) rewrote them meanwhile, or a library is
            # being rebuilt by another process, regenerate and build again before believing a failure
            sh(["python3", f"{VERIF}/tr/translate_units.py"], timeout=120)
            sh(["python3", f"{VERIF}/tr/translate_c11.py"], timeout=120)
            raced = gen_sha() != sha0
            infra = (not proofs_ok) and not info["hygiene"] and re.search(r"premature end of file|inconsistent assumptions|C06/|bad version|Cannot find a physical path|lib/",
                                                                        info.get("log_tail", ""))
            if proofs_ok and not raced:
                break
            if attempt < 2 and (raced or infra):
                ctx.log(f"proofs: attempt {attempt + 1} hit a shared-build race ({'generated file rewritten' if raced else 'library being rebuilt'}); retrying")
                ctx.cov["obligations"], ctx.cov["discharged"] = ob, di
                ctx.cov["theorems"] = []
                time.sleep(10 + 15 * attempt)
                continue
            break
        ctx.log("proofs:", "ok" if proofs_ok else "BROKEN")
        ctx.cov["print_assumptions"] = info.get("assumptions", {})
        if proofs_ok and full:
            rc, out = sh(["timeout", "1200", "coqchk", "-o", "-silent", "-Q", f"{VERIF}/coq", "AV", "AV.C11.Props"], timeout=1300)
            ok = rc == 0 and "Axioms: <none>" in out
            ctx.cov["coqchk"] = {"ok": ok, "summary": out[-600:]}
            ctx.cov["checker_cmd"] += " ; coqchk -o AV.C11.Props (thorough tier)"
            ctx.log("coqchk:", "ok, no axioms" if ok else f"FAILED rc={rc}")
            if not ok:
                proofs_ok = False
                info["log_tail"] = "coqchk: " + out[-2500:]
    else:
        ctx.cov["obligations"] += len(ctx.theorems_in("C11/Props.v"))
        ctx.cov["checker_cmd"] = "translator failed closed; proofs not attempted"
    # 3. correspondence: run the implementation, then let Coq evaluate the model in the background
    corr_bad, corr_err, worker, box = [], None, None, {}
    fail = Fails(ctx)
    if proofs_ok:
        import threading
        terms, descr = correspondence_terms(ctx, fail)
        ctx.log(f"correspondence: {len(terms)} cases collected from the implementation")
        worker = threading.Thread(target=lambda: box.update(res=correspondence_eval(ctx, terms, descr)))
        worker.start()
    # 4. implementation-side oracles (always run: they give the concrete replays)
    oracle_frequencies(ctx, fail)
    oracle_reorder(ctx, fail)
    oracle_motions(ctx, fail)
    ctx.log(f"frequency / mode / relabelling oracles: {fail.n} failures")
    n1 = fail.n
    oracle_numhess(ctx, fail)
    ctx.log(f"numerical Hessian oracles: {fail.n - n1} failures")
    unexpected = [k for k in fail.keys if k not in ctx.known_keys()]
    ctx.cov["implementation_failures_by_key"] = dict(fail.keys)
    ctx.log("failures by key:", dict(fail.keys))
    if worker is not None:
        worker.join()
        corr_bad, corr_err = box.get("res", ([], "correspondence evaluation crashed"))
        ctx.log(f"correspondence: {len(corr_bad)} disagreements" + (f"; coq error {corr_err[:400]}" if corr_err else ""))
        ctx.cov["disagreements"] = len(corr_bad)
    ctx.check_known_still_fail(fail.keys)
    # 5. decide
    if not proofs_ok:
        ctx.proof_failure(info, found_any_input=bool(unexpected))
    if pins_changed and not unexpected and not (corr_bad or corr_err) and proofs_ok:
        ctx.violation("hand model no longer pinned to the source: " + ", ".join(pins_changed),
                      {"kind": "source-pin", "changed": pins_changed}, found_input=False)
    if corr_bad or corr_err:
        if not unexpected:
            ctx.violation("model and implementation disagree (correspondence stream model-vs-impl) and no property-level "
                          "oracle failed on the implementation",
                          {"kind": "correspondence", "stream": "model-vs-impl", "first": [d for d, _ in corr_bad[:4]],
                           "coq_terms": [t[:4000] for _, t in corr_bad[:1]], "coq_error": corr_err}, found_input=False)
        else:
            ctx.log("correspondence disagreements explained by the implementation-level findings above")


def replay(ctx, obj):
    os.chdir(ctx.work)
    np.random.seed(ctx.seed + 11)
    rep = obj.get("replay", {})
    fail = Fails(ctx, limit=0)
    fail.ctx = type("Q", (), {"known_keys": lambda self: [], "finding": lambda self, *a: None})()
    kind = rep.get("kind")
    if kind == "freq-case":
        X, H, sy = np.array(rep["coords"]), np.array(rep["hessian_ha_per_ang2"]), rep["symbols"]
        n = len(sy)
        frames = [("identity", np.eye(3), np.zeros(3), list(range(n)))]
        if "R" in rep:
            frames.append((rep.get("frame", "stored"), np.array(rep["R"]), np.array(rep["t"]), list(rep["perm"])))
        freq_case(ctx, fail, sy, X, H, rep.get("label", "replay"), frames, check_units=True)
    elif kind == "nearlinear-case":
        X, H, sy = np.array(rep["coords"]), np.array(rep["hessian_ha_per_ang2"]), rep["symbols"]
        out = []
        for pm in (rep["perm_a"], rep["perm_b"]):
            X2, H2 = transform(X, H, np.eye(3), np.zeros(3), pm)
            hh = Hessian(H2, atoms=Atoms([Atom(sy[p], *map(float, x)) for p, x in zip(pm, X2)]), units="Ha Å^-2")
            out.append((hh.n_tr, floats(hh.frequencies_proj)))
            print("replay: labelling", pm, "n_tr", out[-1][0], "frequencies", np.round(out[-1][1], 2).tolist())
        if out[0][0] != out[1][0] or not spec_close(out[0][1], out[1][1])[0] or ("want_ntr" in rep and out[0][0] != rep["want_ntr"]):
            fail.n += 1
    elif kind == "reorder-case":
        reorder_case(ctx, fail, rep["symbols"], np.array(rep["coords"]), [tuple(p) for p in rep["pairs"]],
                     {int(k): int(v) for k, v in rep["mapping"].items()}, rep.get("label", "replay"),
                     unit=rep.get("unit", "Ha Å^-2"), functional=rep.get("functional", False))
    elif kind == "motion-case":
        steps = [tuple(st) for st in rep["steps"]]
        motion_case(ctx, fail, rep["symbols"], np.array(rep["coords"]), [tuple(p) for p in rep["pairs"]], steps, rep.get("label", "replay"),
                    unit=rep.get("unit", "Ha Å^-2"), functional=rep.get("functional", False))
    elif kind == "numhess-case":
        X, sy = np.array(rep["coords"]), rep["symbols"]
        nets = [MockNet(f"mock{i}", [tuple(p) for p in ps]) for i, ps in enumerate(rep["pairs"])]
        h, nc = rep.get("shift", 1e-3), rep.get("n_cores", 1)
        hA = float(Distance(h[0], units=h[1]).to("Å")) if isinstance(h, (list, tuple)) else h
        h = tuple(h) if isinstance(h, list) else h
        if "gradient_failing_once" in rep:
            fault_oracle_replay = Fails(ctx, limit=0)
            fault_oracle_replay.ctx = fail.ctx
            n_ = len(sy)
            fault_oracle(type("C", (), {"count": lambda *a, **k: None, "hist": lambda *a, **k: None})(), fault_oracle_replay, n_, sy, X, nets[0],
                         nets[0].hess(X.flatten()), ctx.work)
            print("replay: fault stream failures by key:", fault_oracle_replay.keys)
            fail.n += fault_oracle_replay.n
        elif "hybrid_idxs" in rep:
            rows, raw, sym = run_calc(("hybrid", sy, X, nets, rep["hybrid_idxs"], False, h, nc))
            x = X.flatten()
            Hl, Hh = nets[0].hess(x), nets[1].hess(x)
            hr = [3 * a + k for a in rep["hybrid_idxs"] for k in range(3)]
            want = np.where(np.isin(np.arange(len(x)), hr)[:, None], Hh, Hl)
            bf, _ = fd_bounds(nets[1], x, hA)
            print("replay: raw rows max deviation from (high rows | low rows):", np.abs(raw - want).max(), "bound", bf)
            lr = [r for r in range(len(x)) if r not in hr]
            if hr and lr:
                dev = np.abs(sym[np.ix_(lr, hr)] - Hh[np.ix_(lr, hr)]).max()
                print("replay: requested atoms' columns vs high-level values: max deviation", dev)
                if np.abs(raw - want).max() > bf or dev > bf:
                    fail.n += 1
        else:
            cd = rep.get("scheme") == "central"
            rows, raw, sym = run_calc(("full", sy, X, nets[:1], (), cd, h, nc), in_child=bool(rep.get("serial_child")))
            Hh = nets[0].hess(X.flatten())
            bf, bc = fd_bounds(nets[0], X.flatten(), hA)
            print("replay: max deviation from the analytic Hessian", np.abs(raw - Hh).max(), "bound", bc if cd else bf, "rows", rows)
            if np.abs(raw - Hh).max() > (bc if cd else bf) or not np.array_equal(sym, sym.T):
                fail.n += 1
    else:
        print("replay: stored object is not an implementation-level input:", obj.get("what"))
        return 1
    print("replay: failures =", fail.n, "; stored:", obj.get("what"))
    return 1 if fail.n else 0


MANIFEST = {
    "technique": "Coq proof over a model whose formulas/index expressions are regenerated from source (ast translator) + exact "
                 "model/implementation correspondence with mock gradient methods + frame-change / API-sequence / fault oracles on analytic potentials",
    "level_text": ("Machine-checked theorems (coq/C11/Props.v, closed under the global context, coqchk: no axioms) for EVERY field, gradient oracle and atom "
                   "count: after calculate() row 3i+k holds the forward / central difference for atom i component k (serial loop, process pool, any order of "
                   "hand-back); the matrix returned by `.hessian` is symmetric and re-reading it is idempotent; two-level mode: raw row r is high-level iff r/3 "
                   "was requested, an index outside the species is rejected, the returned entry (r,c) is the mean of raw (r,c) and (c,r) - so the requested "
                   "atoms' COLUMNS hold the mean of high and low level (hybrid_columns_high_level_refuted; known finding HybridHessianCalculator|columns-averaged); "
                   "translation vectors are mutually orthogonal and orthogonal to every rotation vector in the mass-weighted inner product; given orthonormal "
                   "qr / eigh outputs the first n_tr returned modes are zero, the returned vibrational modes are orthonormal, and every returned mode is orthogonal "
                   "to every vector in the span of the first n_tr columns of D, in particular to each normalised mass-weighted translation/rotation vector that qr "
                   "put into that span (oracle premise); negative eigenvalue -> negative frequency, a non-negative scale factor multiplies every frequency (the "
                   "premise is needed: freq_scale_premise_needed), precedence config > functional > 1; frequencies_proj is evaluated once per object when it is a "
                   "cached_property (frequencies_after_scale_change: a later change of the configured factor is then ignored - known finding "
                   "Hessian.frequencies_proj|scale-factor-cached); re-storing a Hessian in another unit hands the same mass-weighted matrix, entry by entry, to "
                   "the eigen-solver; PARTIAL projected_count_partial: the list is n_tr literal zeros (n_tr = 5 iff are_linear answers True, else 6) followed by "
                   "the converted eigenvalues.  Formulas, index expressions and the list of cached properties are regenerated from autode/hessians.py on every run."),
    "level_note": ("PARTIAL, exercised by oracles and not proved: (i) invariance of the eigen-decomposition (frequencies, mode shapes / degenerate subspaces) under a "
                   "common rotation / translation / relabelling; (ii) 'exactly' n_tr zero modes: that the remaining frequencies are non-zero and that the boolean "
                   "answered by Atoms.are_linear is the geometric fact (checked against the rank of the translation/rotation space for exactly collinear, general "
                   "and nearly linear generated geometries: keys Atoms.are_linear|misclassified / near-linear-labelling-dependent / tolerance); (iii) that qr puts "
                   "the translation/rotation vectors into the span of the first n_tr columns; (iv) accuracy of the difference schemes (bounds from analytic third / "
                   "fourth derivatives, and equality with an independently computed finite-difference matrix); (v) everything about the object life cycle - "
                   "Species.rotate / translate / reorder_atoms / copy, deepcopy, storage units and functionals through the public API, retry after a failed gradient "
                   "evaluation - is oracle-only.  Trusted: Coq kernel + vm_compute; the two translators (validated by correspondence); the hand model of the "
                   "calculator control flow, _tr_vecs, mass weighting and mode back-transformation (validated exactly against the implementation: every atom subset "
                   "N<=4, both schemes, n_cores 1/2/4/>3N, serial branch; check_tr_vecs, check_proj_cols, check_modes); process-pool transport; sqrt and pi are "
                   "parameters; 40 source pins."),
}
