"""C13 — nudged-elastic-band forces and band construction (DESIGN 6/C13).

Tie: gen/C13_Gen.v (tangent selection + normalisation, Image.get_force, CImage.get_force, the
adaptive force constants of Images.increment) is regenerated from /repo by tr/translate_c13.py on
every run and the theorems of coq/C13/Props.v are re-checked against it; the hand model of
derivative(), _interpolated_species, _max_atom_distance_between_images and partition
(coq/C13/Model.v) and the generated definitions are run against autode.neb on generated bands.
Property-level oracles evaluated directly on the implementation give the concrete replays.
"""
import contextlib
import math
import sys

import numpy as np

from common import NPROC as NPROC_
from common import REPO, VERIF, source_pins, coq_bool, coq_list, coq_nat, qc, qc_list, qc_mat, sh

TRUSTED_BASE = [
    "Coq 8.16.1 kernel + coqc (vm_compute only in the correspondence shards and the non-vacuity examples; no native_compute)",
    "Print Assumptions: every C13 theorem is closed under the global context (no axioms)",
    "translator tr/translate_c13.py (Python ast -> gen/C13_Gen.v; fail-closed; its output is run against the implementation each run)",
    "fixed Coq text for the Python builtins np.abs, max, min, max(list), np.dot, chained `<`, emitted by the translator",
    "hand model coq/C13/Model.v of derivative(), _interpolated_species, _max_atom_distance_between_images, partition: tied by the "
    "correspondence streams AND by a structural pin in tr/translate_c13.py (source minus docstrings/logger calls must equal the text "
    "the model was written from; any extra loop exit, changed condition or bound fails closed with exit status 3)",
    "np.linalg.norm (square root) is an oracle: theorems take its value at the tangent with the premise nrm*nrm = tau.tau, nrm != 0; "
    "the correspondence accepts the implementation's norm values only after checking c*c = v.v to 1e-12 in exact arithmetic",
    "NEB.from_end_points inside partition (interpolation + IDPP relaxation by scipy L-BFGS-B) is an oracle: partition_bound assumes "
    "it returns a band starting and ending with the given species; the harness measures that on every generated case",
    "scipy L-BFGS-B keeps coordinates with identically zero gradient fixed (checked on the implementation: end images of relaxed bands)",
    "exact rationals model IEEE doubles up to rounding: results compared at 1e-9 (relative above 1, absolute below)",
    "autode.values.Energy.__eq__ tolerance 1.59e-5 Ha hand-modelled (energy_eqb); Value `<` is exact comparison of the doubles",
]
ASSUMPTIONS = [
    "Arithmetic is exact over a field; IEEE rounding is outside the theorems",
    "The Coq model has no units: energies are compared after conversion to Hartree (mixed-unit bands are compared with the model for "
    "increment only; forces on mixed-unit bands are checked by the implementation oracles); all images of a band have the same number of atoms",
    "The tangent is non-zero (otherwise the implementation divides by zero and returns NaN: such generated cases are skipped and counted)",
    "Atom index selections passed to partition are valid indices",
    "The Coq model has no units for force constants and distances either: force constants are Ha/A^2 and max_delta is in Angstrom; "
    "objects carrying other units are exercised by the implementation oracles (and by the model after conversion)",
    "partition's Python while-loop is unbounded; the model has fuel 400 (out-of-fuel is an explicit result, never reached by the generated cases)",
]
RULE = ("bands of 2..20 images (quick: 2..8) x 1..3 atoms, coordinates k/8, gradients k/16, force constants k/16, energy profiles "
        "{rising, falling, peaked, valley, random, flat, exact ties, sub-tolerance near-ties, plateau}; the same with image energies "
        "STORED in mixed units (one interior image in kcal mol-1 / end points in eV / random units); every force and derivative "
        "evaluated twice at the same state (bitwise equal, stored gradients untouched); triples for the tangent/force "
        "functions; end-point pairs x image counts 0..20 for interpolation; random bands x atom selections for the maximum "
        "distance; small molecules x max_delta x selections for from_end_points/partition; a case is non-trivial when it has an "
        "interior image (forces), n >= 3 (interpolation), >= 3 images (max distance) or inserts an image (partition); distinct by inputs")

SLICE = ["lib/Sums.v", "lib/QcInst.v", "C13/Base.v", "C13/Model.v", "C13/Lemmas.v", "C13/Props.v",
         "C13/Corr.v", "gen/C13_Gen.v"]
PRE = ("From Coq Require Import ZArith NArith QArith Qcanon List Bool.\nFrom AV.lib Require Import Sums QcInst.\n"
       "From AV.C13 Require Import Base Model Corr.\nFrom AV.gen Require Import C13_Gen.\nImport ListNotations.\n")

# Source pins (BUILDING.md "Source pins for hand-written models"): every function the hand model of
# coq/C13/Model.v, the Qc instance (energy_eqb, Qcltb as Python `<`), the harness' band builder and the
# from_end_points oracle premise were written from.  NOT listed because tr/translate_c13.py regenerates
# them: Image._tau_xl_x_xr, Image.get_force, CImage.get_force, Images.increment; NOT listed because the
# translator pins their full normalised text (exit status 3): derivative, NEB._interpolated_species,
# NEB._max_atom_distance_between_images, NEB.partition.
PINS = [("autode/neb/original.py", q) for q in (
    "Image.__init__", "Image.gradient",                     # image record: k, flat gradient (getter; setter: translator needle)
    "Images.__init__", "Images.append_species",             # min_k/max_k defaults + assert max_k > min_k; Image(species, k=init_k)
    "Images.coords", "Images.set_coords",                   # flat coordinate vector <-> images (optimiser state)
    "total_energy", "energy_gradient", "_idpp_energy_gradient",   # only interior images re-evaluated; increment() called per step
    "NEB.__init__", "NEB.from_list", "NEB.from_end_points", "NEB.idpp_relax", "NEB._minimise",   # the `build` oracle of partition
    "NEB.calculate", "_est_energy_gradient", "Images.copy",      # the optimiser path exercised by oracle_optimise
    "NEB.max_atom_distance_between_images")] + [
    ("autode/neb/ci.py", q) for q in ("CImage.__init__", "CImages.__init__", "CImages.increment", "CINEB.__init__", "CINEB._minimise")] + [
    ("autode/neb/idpp.py", q) for q in ("IDPP.__init__", "IDPP._set_distance_matrices", "IDPP._distance_matrix")] + [
    ("autode/path/path.py", q) for q in ("Path.__init__", "Path.energies", "Path.peak_idx", "Path.is_saddle")] + [
    # Python `<`, `max`, `-`, `*`, `==` on energies / force constants as modelled by ltb / pmax / field ops / energy_eqb
    ("autode/values.py", q) for q in ("Value.__lt__", "Value.__gt__", "Value.__sub__", "Value.__add__", "Value.__mul__",
                                      "Value.__rmul__", "Value._other_same_units", "Value._like_self_from_float", "Energy.__eq__")] + [
    ("autode/atoms.py", q) for q in ("Atom.translate", "Atom.coord", "AtomCollection.coordinates")] + [
    ("autode/species/species.py", q) for q in ("Species.energy", "Species.copy")]


BUILD_ORDER = ["C13/Base.v", "gen/C13_Gen.v", "C13/Model.v", "C13/Lemmas.v", "C13/Props.v", "C13/Corr.v"]


def direct_build(ctx):
    """Fallback used only when `make`'s dependency scan of the SHARED coq tree fails on a file that
    does not belong to this slice: compile the C13 slice file by file (same coqc, same flags)."""
    import fcntl
    import os
    from common import COQ
    with open(os.path.join(VERIF, ".work", "coq.lock"), "w") as lk:
        fcntl.flock(lk, fcntl.LOCK_EX)
        for f in BUILD_ORDER:
            rc, out = sh(["timeout", "600", "coqc", "-Q", COQ, "AV", "-w", "-notation-overridden,-deprecated", f], cwd=COQ, timeout=630)
            if rc != 0:
                return False, f"{f}: {out[-2500:]}"
    return True, ""


def proofs_step(ctx):
    ok, info = ctx.proofs(SLICE, "C13/Props.v", "AV.C13.Props", extra_targets=["C13/Corr.vo"])
    import re
    err_files = [f.lstrip("./") for f in re.findall(r'File "([^"]+)"', info["log_tail"])]
    foreign = ".Makefile.coq.d" in info["log_tail"] and not any(f in SLICE for f in err_files)
    if not ok and not info["hygiene"] and foreign:
        ctx.log("make failed outside the C13 slice (shared tree); compiling the slice directly")
        ok2, log = direct_build(ctx)
        info["log_tail"] = log or info["log_tail"]
        if ok2:
            names = ctx.theorems_in("C13/Props.v")
            assm, out = ctx.print_assumptions("AV.C13.Props", names)
            if assm is not None:
                info.update(build_ok=True, assumptions=assm)
                ctx.cov["discharged"] += len(names)
                ctx.cov["closed_theorems"] = sum(1 for t in assm.values() if "Closed under the global context" in t)
                ctx.cov["axioms_print_assumptions"] = sorted(
                    {ln.split(":")[0].strip() for t in assm.values() if "Closed under the global context" not in t
                     for ln in t.split("\n") if ln[:1].isalpha() and ":" in ln})
                ctx.cov["checker_cmd"] = "coqc 8.16.1 on each file of the C13 slice in dependency order ; coqc Print Assumptions for each Theorem of C13/Props.v"
                ok = True
            else:
                info["log_tail"] = out[-3000:]
    return ok, info


TOL = 1e-9
PROFILES = ["up", "down", "peak", "valley", "random", "flat", "ties", "neartie", "plateau"]


# ============================================================================================
# building implementation objects
def _species(flat, labels=None):
    import autode as ade
    xyz = np.array(flat, dtype=float).reshape(-1, 3)
    labels = labels or ["H"] * len(xyz)
    ne = sum({"H": 1, "O": 8, "C": 6, "N": 7}[s] for s in labels)
    return ade.Species(name="s", atoms=[ade.Atom(s, *c) for s, c in zip(labels, xyz.tolist())],
                       charge=0, mult=1 if ne % 2 == 0 else 2)


KU = "Ha Å^-2"          # unit all force constants of a band dict are given in


def laid_out(g, layout):
    """The gradient g (logical row-major (n_atoms, 3)) as the array object a caller may hand over:
    flat, C-ordered (n, 3), Fortran-ordered (n, 3), or the transposed view of a (3, n) array."""
    a = np.array(g, dtype=float).reshape(-1, 3)
    if layout == "C":
        return a.copy()
    if layout == "F":
        return np.asfortranarray(a)
    if layout == "T":
        return np.ascontiguousarray(a.T).T
    return a.flatten()


def kphys(k):
    """force constant in Ha / A^2 as a float"""
    return float(k.to(KU)) if hasattr(k, "to") else float(k)


def build_images(band):
    """autode Images for a band dict (energies/coords/grads/ks); the image `ci` is a CImage."""
    from autode.neb.original import Images
    from autode.neb.ci import CImage
    from autode.values import ForceConstant, PotentialEnergy
    kw = {}
    bu = band.get("bound_units") or [KU, KU]
    if band.get("min_k") is not None:
        # band values are Ha / A^2; the objects may carry them in another unit
        kw = {"min_k": ForceConstant(band["min_k"]).to(bu[0]), "max_k": ForceConstant(band["max_k"]).to(bu[1])}
    # the initial constant handed to Images lies inside the configured bounds (each image gets its own k below)
    k0 = band["ks"][0] if band.get("min_k") is None else (band["min_k"] + band["max_k"]) / 2
    imgs = Images(init_k=ForceConstant(k0), **kw)
    for x in band["coords"]:
        imgs.append_species(_species(x))
    units = band.get("units") or ["Ha"] * len(band["energies"])
    for i, im in enumerate(imgs):
        # band["energies"] are Hartree values; the image may STORE them in another unit
        im.energy = band["energies"][i] if units[i] == "Ha" else PotentialEnergy(band["energies"][i], units="Ha").to(units[i])
        im.gradient = laid_out(band["grads"][i], band.get("grad_layout", "flat"))
        im.k = ForceConstant(band["ks"][i]).to((band.get("k_units") or [KU] * len(band["ks"]))[i])
    if band.get("ci") is not None:
        imgs[band["ci"]] = CImage(imgs[band["ci"]])
    return imgs


@contextlib.contextmanager
def record_norms(log):
    """Record every scalar np.linalg.norm value computed inside autode.neb.original (wrapped from
    outside: the module's `np` global is replaced by a delegating proxy for the duration)."""
    import autode.neb.original as M
    real = M.np

    class _Linalg:
        def __getattr__(self, name):
            return getattr(real.linalg, name)

        def norm(self, *a, **k):
            r = real.linalg.norm(*a, **k)
            if np.ndim(r) == 0:
                log.append(float(r))
            return r

    class _NP:
        linalg = _Linalg()

        def __getattr__(self, name):
            return getattr(real, name)

    M.np = _NP()
    try:
        yield
    finally:
        M.np = real


# ============================================================================================
# generators
def gen_energies(rng, m, profile):
    q = lambda k: k / 64.0  # noqa: E731
    if profile == "up":
        return [q(k) for k in sorted(rng.sample(range(-64, 65), m))]
    if profile == "down":
        return [q(k) for k in sorted(rng.sample(range(-64, 65), m), reverse=True)]
    if profile in ("peak", "valley", "plateau"):
        p = rng.randrange(1, m - 1) if m > 2 else 0
        es = [0] * m
        vals = sorted(rng.sample(range(0, 129), m), reverse=(profile == "valley"))
        # unimodal sequence: the extreme value at p, the rest handed out by distance from p
        order = sorted(range(m), key=lambda i: abs(i - p))
        for rank, i in enumerate(order):
            es[i] = vals[m - 1 - rank]
        if profile == "plateau" and m > 3:
            j = min(max(p, 1), m - 3)
            es[j + 1] = es[j]
        return [q(k) for k in es]
    if profile == "flat":
        c = q(rng.randrange(-64, 65))
        return [c] * m
    if profile == "ties":
        return [q(rng.choice([0, 16, 32])) for _ in range(m)]
    if profile == "neartie":
        base = [q(rng.choice([0, 16, 16, 32])) for _ in range(m)]
        return [b + rng.choice([0, 1, 2, 3, 4]) * 2.0 ** -18 for b in base]   # < 1.59e-5 Ha apart
    return [q(rng.randrange(-64, 65)) for _ in range(m)]


def gen_band(rng, m, natoms, profile):
    n = 3 * natoms
    drift = [rng.choice([-2, -1, 1, 2]) for _ in range(n)]
    x0 = [rng.randrange(-16, 17) for _ in range(n)]
    coords = []
    for i in range(m):
        coords.append([(x0[c] + i * drift[c] + rng.randrange(-1, 2)) / 8.0 for c in range(n)])
    grads = [[rng.randrange(-16, 17) / 16.0 for _ in range(n)] for _ in range(m)]
    ks = [rng.randrange(1, 9) / 16.0 for _ in range(m)]
    lo = rng.randrange(1, 8) / 64.0
    hi = lo + rng.randrange(0 if rng.random() < 0.1 else 1, 16) / 64.0
    if hi <= lo:
        hi = lo + 1 / 64.0          # Images.__init__ asserts max_k > min_k
    es = gen_energies(rng, m, profile)
    ci = None
    if m > 2:
        inter = list(range(1, m - 1))
        ci = max(inter, key=lambda i: es[i]) if rng.random() < 0.7 else rng.choice(inter)
    return {"m": m, "natoms": natoms, "profile": profile, "energies": es, "coords": coords, "grads": grads,
            "ks": ks, "min_k": lo, "max_k": hi, "ci": ci, "grad_layout": rng.choice(["flat", "C", "F", "T"])}


UNIT_PATTERNS = ["interior-kcal", "ends-eV", "random-units"]


def gen_mixed_band(rng, m, natoms, profile, pattern):
    """A band whose image energies (well separated: no ties, the storage-unit round trip must not
    decide a comparison) are NOT all stored in the same unit."""
    band = gen_band(rng, m, natoms, profile)
    if pattern == "interior-kcal":
        units = ["Ha"] * m
        units[rng.randrange(1, m - 1)] = "kcal mol-1"
    elif pattern == "ends-eV":
        units = ["eV"] + ["Ha"] * (m - 2) + ["eV"]
    else:
        units = [rng.choice(["Ha", "kcal mol-1", "eV", "kJ mol-1"]) for _ in range(m)]
        if len(set(units)) == 1:
            units[rng.randrange(m)] = "eV" if units[0] != "eV" else "Ha"
    band["units"] = units
    band["profile"] = f"{profile}/{pattern}"
    return band


K_UNITS = ["Ha Å^-2", "Ha a0^-2", "J m^-2"]


def gen_mixed_k_band(rng, m, natoms, profile):
    """Energies in Ha, but force constants (and the configured bounds) carried in different units."""
    band = gen_band(rng, m, natoms, profile)
    ku = [rng.choice(K_UNITS) for _ in range(m)]
    if len(set(ku[:3])) == 1:
        ku[0] = "Ha a0^-2" if ku[0] != "Ha a0^-2" else "Ha Å^-2"
    band["k_units"] = ku
    band["bound_units"] = rng.choice([["Ha Å^-2", "Ha a0^-2"], ["Ha a0^-2", "Ha Å^-2"], ["J m^-2", "Ha Å^-2"]])
    band["profile"] = f"{profile}/k-units"
    return band


# ============================================================================================
# property-level oracles on the implementation (no model involved)
def spec_tangent(El, E, Er, xl, x, xr):
    """The NEB definition (Henkelman & Jonsson 2000, eqs 8-11), written independently."""
    tp, tm = xr - x, x - xl
    dmax, dmin = max(abs(Er - E), abs(El - E)), min(abs(Er - E), abs(El - E))
    if El < E < Er:
        t = tp
    elif El > E > Er:
        t = tm
    elif dmax == 0:
        t = tp + tm                       # three equal energies: both one-sided weights vanish
    elif Er > El:
        t = tp * dmax + tm * dmin
    elif Er < El:
        t = tp * dmin + tm * dmax
    else:
        t = tp + tm                       # equal neighbours: the two formulas coincide
    nt = float(np.linalg.norm(t))
    return None if nt == 0 or not math.isfinite(nt) else t / nt


def vclose(a, b, tol=TOL):
    a, b = np.asarray(a, dtype=float), np.asarray(b, dtype=float)
    return a.shape == b.shape and bool(np.all(np.isfinite(a))) and \
        bool(np.all(np.abs(a - b) <= tol * np.maximum(1.0, np.abs(b))))


def oracle_band(band):
    """-> (failures [(key, what)], observations dict) for one band."""
    from autode.neb.original import derivative
    from autode.neb.ci import CImage
    from autode.config import Config
    fails, obs = [], {"forces": {}, "ci_forces": {}, "taus": {}, "norms": {}, "degenerate": []}
    m = band["m"]
    plain = dict(band, ci=None)
    imgs = build_images(plain)
    n = 3 * band["natoms"]
    for i, im in enumerate(imgs):
        if not np.array_equal(np.array(im.gradient, dtype=float), np.array(band["grads"][i], dtype=float)):
            fails.append(("Image.gradient|not-row-major-flat",
                          f"image {i}: gradient given as a {band.get('grad_layout')}-layout array of {band['grads'][i]} is stored as "
                          f"{np.array(im.gradient, dtype=float).tolist()}"))
            break
    for i in range(1, m - 1):
        l, c, r = imgs[i - 1], imgs[i], imgs[i + 1]
        El, E, Er = (float(band["energies"][j]) for j in (i - 1, i, i + 1))
        xl, x, xr = (np.array(band["coords"][j]) for j in (i - 1, i, i + 1))
        g = np.array(band["grads"][i])
        kl, kr = band["ks"][i - 1], band["ks"][i + 1]
        th = spec_tangent(El, E, Er, xl, x, xr)
        if th is None:
            obs["degenerate"].append(i)
            continue
        log = []
        try:
            with record_norms(log):
                hat, rxl, rx, rxr = c._tau_xl_x_xr(l, r)
                f = c.get_force(im_l=l, im_r=r)
                cim = CImage(c)
                fc = cim.get_force(im_l=l, im_r=r)
            # the same state evaluated again: same force, stored gradient untouched (bitwise)
            f = np.array(f, dtype=float)
            fc = np.array(fc, dtype=float)
            g_ci_after = np.array(cim.gradient, dtype=float)
            g_after = np.array(c.gradient, dtype=float)
            f2 = np.array(c.get_force(im_l=l, im_r=r), dtype=float)
            fc2 = np.array(cim.get_force(im_l=l, im_r=r), dtype=float)
            if not np.array_equal(g_after, g) or not np.array_equal(np.array(c.gradient, dtype=float), g):
                fails.append(("Image.get_force|modifies-stored-gradient",
                              f"image {i}: gradient was {g.tolist()}, after evaluating forces the image holds {np.array(c.gradient, dtype=float).tolist()}"))
            if not np.array_equal(g_ci_after, g) or not np.array_equal(np.array(cim.gradient, dtype=float), g):
                fails.append(("CImage.get_force|modifies-stored-gradient",
                              f"climbing image {i}: gradient was {g.tolist()}, after get_force the image holds {np.array(cim.gradient, dtype=float).tolist()}"))
            if not np.array_equal(f, f2, equal_nan=True):
                fails.append(("Image.get_force|not-repeatable", f"image {i}: second evaluation at the same state gives {f2.tolist()}, the first gave {f.tolist()}"))
            if not np.array_equal(fc, fc2, equal_nan=True):
                fails.append(("CImage.get_force|not-repeatable",
                              f"climbing image {i}: second evaluation at the same state gives {fc2.tolist()}, the first gave {fc.tolist()}"))
        except Exception as e:  # noqa
            fails.append(("Image._tau_xl_x_xr|raises",
                          f"image {i} with energies (E_l, E, E_r) = ({El}, {E}, {Er}): {type(e).__name__}: {e}"))
            obs["taus"][i] = None
            continue
        hat, f, fc = np.asarray(hat, dtype=float), np.asarray(f, dtype=float), np.asarray(fc, dtype=float)
        obs["taus"][i], obs["forces"][i], obs["ci_forces"][i], obs["norms"][i] = hat, f, fc, log
        if not (vclose(rxl, xl) and vclose(rx, x) and vclose(rxr, xr)):
            fails.append(("Image._tau_xl_x_xr|coordinates", f"image {i}: returned coordinates are not those of the three images"))
        if abs(float(np.dot(hat, hat)) - 1.0) > TOL:
            fails.append(("Image._tau_xl_x_xr|not-unit", f"image {i}: |tau|^2 = {float(np.dot(hat, hat))!r}"))
        u3 = (band.get("units") or ["Ha"] * m)[i - 1:i + 2]
        if not vclose(hat, th) and len(set(u3)) > 1:
            fails.append(("Image._tau_xl_x_xr|mixed-energy-units",
                          f"image {i}, energies ({El}, {E}, {Er}) Ha stored in units {u3}: tangent {hat.tolist()} but with every energy "
                          f"stored in Ha (and by the NEB definition) it is {th.tolist()}"))
            continue      # the force identities below are stated for the definition's tangent
        if not vclose(hat, th):
            fails.append(("Image._tau_xl_x_xr|tangent-not-by-energy-order",
                          f"image {i}, energies ({El}, {E}, {Er}): tangent {hat.tolist()} but the NEB definition gives {th.tolist()}"))
        spring = kr * float(np.linalg.norm(xr - x)) - kl * float(np.linalg.norm(x - xl))
        gperp = g - np.dot(g, th) * th
        fpar = float(np.dot(f, th))
        ku3 = [(band.get("k_units") or [KU] * m)[j] for j in (i - 1, i + 1)]
        if abs(fpar - spring) > TOL * max(1.0, abs(spring)) and set(ku3) != {KU}:
            fails.append(("Image.get_force|force-constant-units",
                          f"image {i}: neighbours carry k_l = {kl} and k_r = {kr} Ha/A^2 in units {ku3}: F.tau = {fpar!r}, "
                          f"spring term k_r|x_r-x| - k_l|x-x_l| = {spring!r} Ha/A"))
        elif abs(fpar - spring) > TOL * max(1.0, abs(spring)):
            fails.append(("Image.get_force|parallel-component",
                          f"image {i}: F.tau = {fpar!r}, spring term k_r|x_r-x| - k_l|x-x_l| = {spring!r}"))
        if not vclose(f - fpar * th, -gperp):
            fails.append(("Image.get_force|perpendicular-component",
                          f"image {i}: F - (F.tau)tau = {(f - fpar * th).tolist()} but -(g - (g.tau)tau) = {(-gperp).tolist()}"))
        if not vclose(fc, -g + 2.0 * np.dot(g, th) * th):
            fails.append(("CImage.get_force|definition",
                          f"image {i}: climbing force {fc.tolist()} != -g + 2(g.tau)tau = {(-g + 2.0 * np.dot(g, th) * th).tolist()}"))
        cpar = float(np.dot(fc, th))
        if abs(cpar - float(np.dot(g, th))) > TOL * max(1.0, abs(cpar)):
            fails.append(("CImage.get_force|parallel-not-inverted",
                          f"image {i}: F_ci.tau = {cpar!r}, inverted true-force component = {float(np.dot(g, th))!r}"))
        if not vclose(fc - cpar * th, -gperp):
            fails.append(("CImage.get_force|perpendicular-component", f"image {i}: perpendicular part of the climbing force is not -g_perp"))
    # derivative(): end blocks zero, interior blocks = -force (with the band's climbing image)
    imgs_ci = build_images(band)
    before = [np.array(im.coordinates).flatten().copy() for im in imgs_ci]
    log = []
    try:
        with record_norms(log):
            d = np.array(derivative(None, imgs_ci, None, 1, False), dtype=float)
        obs["derivative"], obs["derivative_norms"] = d, log
        d2 = np.array(derivative(None, imgs_ci, None, 1, False), dtype=float)
        if d.shape != d2.shape or not np.array_equal(d, d2, equal_nan=True):   # NaN: zero tangent (degenerate geometry, skipped elsewhere)
            fails.append(("derivative|not-repeatable",
                          f"{m} images (climbing image {band.get('ci')}): a second derivative() at the same coordinates differs from the first "
                          f"by up to {float(np.max(np.abs(d - d2))) if d.shape == d2.shape else 'shape'}"))
        for j, im in enumerate(imgs_ci):
            if not np.array_equal(np.array(im.gradient, dtype=float), np.array(band["grads"][j], dtype=float)):
                fails.append(("derivative|modifies-stored-gradient",
                              f"image {j}{' (climbing)' if band.get('ci') == j else ''}: stored gradient changed from {band['grads'][j]} "
                              f"to {np.array(im.gradient, dtype=float).tolist()} by derivative()"))
                break
        if d.shape != (m * n,):
            fails.append(("derivative|shape", f"derivative has shape {d.shape}, expected ({m * n},)"))
        else:
            blocks = d.reshape(m, n)
            if np.any(blocks[0] != 0) or np.any(blocks[-1] != 0):
                fails.append(("derivative|end-block-nonzero",
                              f"{m} images: first block {blocks[0].tolist()}, last block {blocks[-1].tolist()} (must be zero: end images never move)"))
            for i in range(1, m - 1):
                want = obs["ci_forces"].get(i) if band.get("ci") == i else obs["forces"].get(i)
                if want is not None and not vclose(blocks[i], -want):
                    fails.append(("derivative|interior-block", f"block {i} is not minus the force of image {i}"))
        if any(not np.array_equal(b, np.array(im.coordinates).flatten()) for b, im in zip(before, imgs_ci)):
            fails.append(("derivative|moves-images", "derivative() changed image coordinates"))
    except Exception as e:  # noqa
        obs["derivative"] = None
        if not any(k == "Image._tau_xl_x_xr|raises" for k, _ in fails):
            fails.append(("derivative|raises", f"{type(e).__name__}: {e}"))
    # increment(): adaptive constants
    old = Config.adaptive_neb_k
    try:
        for adaptive in (True, False):
            Config.adaptive_neb_k = adaptive
            im2 = build_images(plain)
            it0 = [im.iteration for im in im2]
            try:
                im2.increment()
            except Exception as e:  # noqa
                fails.append(("Images.increment|raises", f"adaptive={adaptive}: {type(e).__name__}: {e}"))
                obs[f"ks_{adaptive}"] = None
                continue
            ks = [kphys(im.k) for im in im2]          # Ha / A^2 whatever unit the object carries
            obs[f"ks_{adaptive}"] = ks
            if [im.iteration for im in im2] != [k + 1 for k in it0]:
                fails.append(("Images.increment|iteration", "iteration counters not advanced by one"))
            es = [float(e) for e in band["energies"]]
            old_ks = [float(k) for k in band["ks"]]
            if not adaptive:
                if not vclose(ks, old_ks, 1e-12):
                    fails.append(("Images.increment|changes-k-when-off", f"adaptive off but k changed: {ks}"))
                continue
            e_ref, e_max = max(es[0], es[-1]), max(es)
            lo, hi = band["min_k"], band["max_k"]
            # the update is due when the band has a peak clearly above both end points (Energy.__eq__ tolerance 1.59e-5 Ha);
            # the property is then stated on the constants AFTER the call, whatever they were before
            if e_max - e_ref > 2e-5:
                if any(k < lo - TOL or k > hi + TOL for k in ks):
                    fails.append(("Images.increment|k-out-of-bounds", f"k = {ks} outside [{lo}, {hi}] for energies {es}"))
                bad = next(((a, b) for a in range(m) for b in range(m) if es[a] <= es[b] and ks[a] > ks[b] + TOL), None)
                if bad:
                    a, b = bad
                    fails.append(("Images.increment|k-not-monotone",
                                  f"E[{a}]={es[a]} <= E[{b}]={es[b]} but k[{a}]={ks[a]} > k[{b}]={ks[b]}"))
                elif hi - lo > 1e-6:
                    # "increase with image energy": strictly, between images at or above the reference energy
                    flat = next(((a, b) for a in range(m) for b in range(m)
                                 if e_ref <= es[a] and es[a] + 1e-6 < es[b] and not ks[a] < ks[b]), None)
                    if flat:
                        a, b = flat
                        fails.append(("Images.increment|k-not-increasing",
                                      f"E_ref={e_ref} <= E[{a}]={es[a]} < E[{b}]={es[b]} but k[{a}]={ks[a]}, k[{b}]={ks[b]} (bounds [{lo}, {hi}])"))
    finally:
        Config.adaptive_neb_k = old
    return fails, obs


def oracle_interp(d):
    """_interpolated_species(initial, final, n): count, end points, even spacing, atom order."""
    from autode.neb.original import NEB
    fails = []
    a, b, n = _species(d["a"], d["labels"]), _species(d["b"], d["labels_b"]), d["n"]
    xa, xb = np.array(d["a"]), np.array(d["b"])
    try:
        sp = NEB._interpolated_species(a, b, n)
    except RuntimeError:
        if n >= 2:
            fails.append(("NEB._interpolated_species|raises", f"n={n}: RuntimeError for a valid image count"))
        return fails, None
    if n < 2:
        fails.append(("NEB._interpolated_species|accepts-n<2", f"n={n} accepted, {len(sp)} images returned"))
        return fails, sp
    if len(sp) != n:
        fails.append(("NEB._interpolated_species|count", f"asked for {n} images, got {len(sp)}"))
        return fails, sp
    got = [np.array(s.coordinates).flatten() for s in sp]
    if not vclose(got[0], xa) or not vclose(got[-1], xb):
        fails.append(("NEB._interpolated_species|end-points", f"n={n}: first/last image is not the initial/final species"))
    for i in range(n):
        want = xa + (i / (n - 1)) * (xb - xa)
        if not vclose(got[i], want):
            fr = np.linalg.norm(got[i] - xa) / max(np.linalg.norm(xb - xa), 1e-300)
            fails.append(("NEB._interpolated_species|spacing",
                          f"n={n}: image {i} sits at fraction {fr:.6f} of the way, even spacing requires {i / (n - 1):.6f}"))
            break
    for i, s in enumerate(sp):
        want = d["labels"] if i < n - 1 else d["labels_b"]
        if [at.label for at in s.atoms] != want:
            fails.append(("NEB._interpolated_species|composition", f"n={n}: image {i} has atoms {[at.label for at in s.atoms]}, expected {want}"))
            break
    if np.array(a.coordinates).flatten().tolist() != list(map(float, d["a"])) or \
            np.array(b.coordinates).flatten().tolist() != list(map(float, d["b"])):
        fails.append(("NEB._interpolated_species|mutates-end-points", "the given end point species were modified"))
    return fails, sp


def oracle_from_end_points(d):
    """from_end_points (interpolation + IDPP relaxation): count, end points fixed, atom order."""
    from autode.neb.original import NEB
    from autode.neb.ci import CINEB
    fails = []
    cls = CINEB if d.get("cineb") else NEB
    labels_b = d.get("labels_b") or d["labels"]
    a, b = _species(d["a"], d["labels"]), _species(d["b"], labels_b)
    if labels_b != d["labels"]:
        # same composition, different atom order: the documented precondition is violated, the band cannot keep
        # atom order -> must be refused
        try:
            neb = cls.from_end_points(a, b, num=d["n"])
        except ValueError:
            return fails
        return [("NEB.from_end_points|permuted-atom-order-accepted",
                 f"initial atoms {d['labels']}, final atoms {labels_b}: accepted; images carry "
                 f"{[[at.label for at in im.atoms] for im in neb.images]}")]
    neb = cls.from_end_points(a, b, num=d["n"])
    ims = neb.images
    if len(ims) != d["n"]:
        fails.append(("NEB.from_end_points|count", f"asked for {d['n']} images, got {len(ims)}"))
        return fails
    if not vclose(np.array(ims[0].coordinates).flatten(), d["a"]) or not vclose(np.array(ims[-1].coordinates).flatten(), d["b"]):
        fails.append(("NEB.from_end_points|end-points-moved",
                      f"n={d['n']}: an end image moved during the IDPP relaxation: first {np.array(ims[0].coordinates).flatten().tolist()} "
                      f"last {np.array(ims[-1].coordinates).flatten().tolist()}"))
    for i, im in enumerate(ims):
        if [at.label for at in im.atoms] != d["labels"]:
            fails.append(("NEB.from_end_points|composition", f"image {i} has atoms {[at.label for at in im.atoms]}"))
            break
    return fails


def brute_max_distance(coords, idxs):
    best = -math.inf
    for k in range(len(coords) - 1):
        dd = np.linalg.norm(np.array(coords[k]).reshape(-1, 3) - np.array(coords[k + 1]).reshape(-1, 3), axis=1)
        best = max(best, max(float(dd[j]) for j in idxs))
    return best


def oracle_maxdist(d):
    from autode.neb.original import NEB
    fails = []
    if d.get("cineb"):
        from autode.neb.ci import CINEB as NEB  # noqa: F811  (an override in the subclass would be exercised)
    neb = NEB.from_list([_species(x) for x in d["coords"]])
    idxs = d["idxs"]
    sel = list(range(len(d["coords"][0]) // 3)) if idxs is None else idxs
    try:
        got = float(neb._max_atom_distance_between_images(idxs))
    except (ValueError, IndexError):     # an empty selection: numpy refuses to index with / reduce over it
        return (fails if (len(sel) == 0 and len(d["coords"]) > 1) else
                [("NEB._max_atom_distance_between_images|raises", "ValueError for a non-empty selection")]), "err"
    if len(sel) == 0 and len(d["coords"]) > 1:
        return [("NEB._max_atom_distance_between_images|empty-selection-accepted", f"returned {got}")], got
    want = brute_max_distance(d["coords"], sel) if sel else -math.inf
    if not (got == want or abs(got - want) <= TOL * max(1.0, abs(want))):
        fails.append(("NEB._max_atom_distance_between_images|not-max-over-all-pairs",
                      f"{len(d['coords'])} images, atoms {sel}: returned {got!r}, the maximum over all consecutive pairs is {want!r}"))
    return fails, got


def run_partition(d):
    """Run NEB.partition on the implementation, recording every from_end_points call.
    -> (result tag, final coords list, calls [(left coords, right coords, num, result coords|None)])"""
    from autode.neb.original import NEB
    from autode.values import Distance
    calls = []
    orig = NEB.__dict__["from_end_points"]

    fail_calls = set(d.get("fail_calls") or ())

    def wrapper(cls, initial, final, num, **kw):
        l = np.array(initial.coordinates).flatten().copy()
        r = np.array(final.coordinates).flatten().copy()
        try:
            if len(calls) in fail_calls:     # fault injection: the IDPP relaxation of this trial band fails
                raise RuntimeError("injected: IDPP relaxation failed")
            res = orig.__func__(cls, initial, final, num, **kw)
        except RuntimeError:
            calls.append((l, r, num, None))
            raise
        calls.append((l, r, num, [np.array(im.coordinates).flatten().copy() for im in res.images]))
        return res

    if d.get("cineb"):
        from autode.neb.ci import CINEB
        neb = CINEB.from_list([_species(x, d["labels"]) for x in d["coords"]])
    else:
        neb = NEB.from_list([_species(x, d["labels"]) for x in d["coords"]])
    NEB.from_end_points = classmethod(wrapper)
    try:
        try:
            # d["max_delta"] is in Angstrom; the Distance object may carry it in another unit
            neb.partition(max_delta=Distance(d["max_delta"]).to(d.get("max_delta_unit") or "Å"), distance_idxs=d["idxs"])
            tag = "ok"
        except AssertionError:
            tag = "assertion"
        except RuntimeError:
            tag = "runtime"
        except (ValueError, IndexError):
            tag = "value"
    finally:
        NEB.from_end_points = orig
    return tag, neb, calls


def cineb_after_partition(neb, d):
    """A climbing-image band stays one through partition: same container type, and iterating past the waiting period
    switches the climbing image on at the highest peak (which then feels -g + 2(g.tau)tau)."""
    from autode.neb.ci import CImages, CImage
    if not isinstance(neb.images, CImages):
        return [("NEB.partition|band-type-changed",
                 f"a CINEB band ({len(d['coords'])} images) holds {type(neb.images).__name__} instead of CImages after partition: "
                 "no climbing image can be switched on any more")]
    m = len(neb.images)
    if m < 3:
        return []
    top = m // 2
    es = [1.0 - abs(i - top) / m for i in range(m)]
    grads = [[((7 * i + 3 * c) % 11 - 5) / 16.0 for c in range(3 * len(d["labels"]))] for i in range(m)]
    for i, im in enumerate(neb.images):
        im.energy = es[i]
        im.gradient = np.array(grads[i])
    for _ in range(neb.images.wait_iteration + 1):
        neb.images.increment()
    im = neb.images[top]
    xl, x, xr = (np.array(neb.images[j].coordinates, dtype=float).flatten() for j in (top - 1, top, top + 1))
    th = spec_tangent(es[top - 1], es[top], es[top + 1], xl, x, xr)
    if th is None:
        return []
    g = np.array(grads[top])
    f = np.array(im.get_force(im_l=neb.images[top - 1], im_r=neb.images[top + 1]), dtype=float)
    if not isinstance(im, CImage) or not vclose(f, -g + 2.0 * np.dot(g, th) * th):
        return [("NEB.partition|climbing-image-not-switched-on",
                 f"CINEB band partitioned to {m} images, {neb.images.wait_iteration + 1} iterations: the highest image {top} is a "
                 f"{type(im).__name__} and feels {f.tolist()}, not -g + 2(g.tau)tau = {(-g + 2.0 * np.dot(g, th) * th).tolist()}")]
    return []


def oracle_partition(d):
    fails = []
    tag, neb, calls = run_partition(d)
    natoms = len(d["labels"])
    sel = list(range(natoms)) if d["idxs"] is None else d["idxs"]
    final = [np.array(im.coordinates).flatten() for im in neb.images]
    info = {"tag": tag, "n_final": len(final), "n_calls": len(calls)}
    if tag != "ok":
        if len(d["coords"]) >= 2 and sel:
            fails.append(("NEB.partition|raises", f"{tag} error for a band of {len(d['coords'])} images"))
        return fails, (tag, final, calls), info
    worst = brute_max_distance(final, sel)
    info["worst"] = worst
    if worst > d["max_delta"] * (1 + TOL) and (d.get("max_delta_unit") or "Å") != "Å":
        fails.append(("NEB.partition|max_delta-units",
                      f"max_delta = {d['max_delta']} A given as a Distance in {d['max_delta_unit']}, atoms {sel}: after partition two "
                      f"consecutive images differ by {worst!r} A ({len(d['coords'])} -> {len(final)} images)"))
    elif worst > d["max_delta"] * (1 + TOL):
        fails.append(("NEB.partition|bound-exceeded",
                      f"max_delta={d['max_delta']}, atoms {sel}: after partition two consecutive images differ by {worst!r} "
                      f"({len(d['coords'])} -> {len(final)} images)"))
    if not vclose(final[0], d["coords"][0]) or not vclose(final[-1], d["coords"][-1]):
        fails.append(("NEB.partition|end-points", "first/last image of the partitioned band is not the original one"))
    for x in d["coords"]:
        if not any(vclose(f, x) for f in final):
            fails.append(("NEB.partition|original-image-lost", "an image of the original band is missing afterwards"))
            break
    for i, im in enumerate(neb.images):
        if [at.label for at in im.atoms] != d["labels"]:
            fails.append(("NEB.partition|composition", f"image {i} has atoms {[at.label for at in im.atoms]}, expected {d['labels']}"))
            break
    if d.get("cineb"):
        fails += cineb_after_partition(neb, d)
    for (l, r, num, res) in calls:
        if res is not None and (len(res) != num or not vclose(res[0], l) or not vclose(res[-1], r)):
            fails.append(("NEB.from_end_points|end-points-moved", f"num={num}: returned band does not start/end at the given species"))
            break
    return fails, (tag, final, calls), info


ORACLE_TIME_LIMIT = 90     # seconds per implementation oracle call (slowest honest quick case ~4 s, thorough ~12 s, idle machine)
TIMED_OUT = {}             # kind -> number of calls that hit the limit in this run


class OracleTimeout(BaseException):
    pass


def oracle_ci_sequence(d):
    """A climbing-image band over several optimiser iterations whose energies change: after every
    increment() past the waiting period exactly the highest interior peak is the climbing image (feels
    -g + 2(g.tau)tau); every other interior image feels the ordinary NEB force."""
    from autode.neb.original import Images
    from autode.neb.ci import CImages, CImage
    from autode.values import ForceConstant
    fails = []
    band = d["band"]
    m = band["m"]
    imgs = CImages(Images(init_k=ForceConstant(band["ks"][0])), wait_iterations=d["wait"])
    for x in band["coords"]:
        imgs.append_species(_species(x))
    for i, im in enumerate(imgs):
        im.k = ForceConstant(band["ks"][i])
    for step, es in enumerate(d["profiles"]):
        for i, im in enumerate(imgs):
            im.energy = es[i]
            im.gradient = np.array(band["grads"][i], dtype=float)
        imgs.increment()
        if imgs[0].iteration < d["wait"]:
            if any(isinstance(im, CImage) for im in imgs):
                fails.append(("CImages.increment|climbs-before-wait", f"step {step}: a climbing image before iteration {d['wait']}"))
            continue
        peaks = [i for i in range(1, m - 1) if es[i - 1] < es[i] > es[i + 1]]
        if not peaks:
            continue
        top = max(peaks, key=lambda i: es[i])
        for i in range(1, m - 1):
            xl, x, xr = (np.array(band["coords"][j]) for j in (i - 1, i, i + 1))
            th = spec_tangent(es[i - 1], es[i], es[i + 1], xl, x, xr)
            if th is None:
                continue
            g = np.array(band["grads"][i])
            f = np.array(imgs[i].get_force(im_l=imgs[i - 1], im_r=imgs[i + 1]), dtype=float)
            f_ci = -g + 2.0 * np.dot(g, th) * th
            spring = kphys(imgs[i + 1].k) * float(np.linalg.norm(xr - x)) - kphys(imgs[i - 1].k) * float(np.linalg.norm(x - xl))
            f_neb = spring * th - (g - np.dot(g, th) * th)
            if i == top and not (isinstance(imgs[i], CImage) and vclose(f, f_ci)):
                fails.append(("CImages.increment|highest-peak-not-climbing",
                              f"step {step}, energies {es}: the highest peak is image {i} ({type(imgs[i]).__name__}) but its force "
                              f"{f.tolist()} is not -g + 2(g.tau)tau = {f_ci.tolist()}"))
            if i != top and isinstance(imgs[i], CImage):
                # ONLY this: an image that is no longer (or never was) the highest peak still is a CImage
                fails.append(("CImages.increment|stale-climbing-image",
                              f"step {step}, energies {es}: image {i} is not the highest peak (image {top}) but still is a CImage "
                              f"(force {f.tolist()}, NEB force {f_neb.tolist()})"))
            elif i != top and not vclose(f, f_neb):
                fails.append(("CImages.increment|non-climbing-image-force",
                              f"step {step}, energies {es}: image {i} (a plain Image, not the highest peak {top}) feels {f.tolist()}, "
                              f"not the NEB force {f_neb.tolist()}"))
    seen, out = set(), []
    for k, w in fails:          # one instance per key is enough for a replay
        if k not in seen:
            seen.add(k)
            out.append((k, w))
    return out


def _stand_in_energy_gradient(image, method, n_cores):
    """A smooth analytic potential in place of an electronic-structure calculation (sets energy and
    gradient like _est_energy_gradient does)."""
    from autode.values import PotentialEnergy
    x = np.array(image.coordinates).flatten()
    c = np.linspace(0.3, 1.1, x.size)
    image.energy = PotentialEnergy(float(0.05 * np.sum((x - c) ** 2) + 0.02 * np.sum(np.sin(3 * x))))
    image.gradient = (0.1 * (x - c) + 0.06 * np.cos(3 * x)).reshape(-1, 3)
    return image


def oracle_optimise(d):
    """The optimiser path of NEB.calculate (NEB._minimise / CINEB._minimise -> scipy L-BFGS-B with total_energy /
    derivative, ProcessPool branch, images replaced by the unpickled results) with a stand-in potential: the two end
    images do not move (bitwise), interior images do, atom order is kept."""
    import autode.neb.original as M
    from autode.neb.ci import CINEB
    fails = []
    cls = CINEB if d.get("cineb") else M.NEB
    orig = M.energy_gradient
    M.energy_gradient = _stand_in_energy_gradient
    try:
        neb = cls.from_end_points(_species(d["a"], d["labels"]), _species(d["b"], d["labels"]), num=d["n"])
        for idx in (0, -1):
            _stand_in_energy_gradient(neb.images[idx], None, 1)
        x0 = [np.array(im.coordinates).flatten().copy() for im in neb.images]
        res = neb._minimise(method=object(), n_cores=2, etol=1e-6, max_n=d.get("max_n", 25))
        neb.images.set_coords(res.x)
    finally:
        M.energy_gradient = orig
    x1 = [np.array(im.coordinates).flatten() for im in neb.images]
    if len(x1) != d["n"]:
        return [("NEB._minimise|image-count", f"{d['n']} images before, {len(x1)} after the optimisation")]
    for idx, name in ((0, "first"), (-1, "last")):
        if not np.array_equal(x0[idx], x1[idx]):
            fails.append(("NEB._minimise|end-image-moved",
                          f"{cls.__name__}, {d['n']} images: the {name} image moved by {float(np.max(np.abs(x0[idx] - x1[idx])))!r} A "
                          f"during {res.nfev} optimiser evaluations"))
    d["_moved"] = bool(any(np.max(np.abs(p - q)) > 1e-6 for p, q in zip(x0[1:-1], x1[1:-1])))   # non-triviality only
    for i, im in enumerate(neb.images):
        if [at.label for at in im.atoms] != d["labels"]:
            fails.append(("NEB._minimise|composition", f"image {i} has atoms {[at.label for at in im.atoms]}"))
            break
    return fails


def oracle_energy_sequence(d):
    """The objective/gradient pair scipy drives (total_energy, derivative) over SEVERAL geometries of one band: after every
    total_energy(x) each interior image sits at its block of x and carries the energy and gradient of a FRESH evaluation at
    that geometry (nothing stale from an earlier step), and derivative() equals the one of a freshly evaluated band."""
    import autode.neb.original as M
    from autode.neb.idpp import IDPP
    fails = []
    a, b = _species(d["a"], d["labels"]), _species(d["b"], d["labels"])
    images = M.NEB.from_list(M.NEB._interpolated_species(a, b, n=d["n"])).images
    n = len(d["a"])
    use_idpp = d["method"] == "idpp"
    orig = M.energy_gradient
    if use_idpp:
        method = IDPP(images=images)

        def fresh(image):
            return float(method(image)), np.array(method.grad(image), dtype=float).flatten()
    else:
        method = object()
        M.energy_gradient = _stand_in_energy_gradient

        def fresh(image):
            c = _stand_in_energy_gradient(_ImageProbe(image), None, 1)
            return float(c.energy), np.array(c.gradient, dtype=float).flatten()
    try:
        for image in images:                       # the initial evaluation (as NEB.idpp_relax / NEB.calculate do)
            e, g = fresh(image)
            image.energy, image.gradient = e, g
        x = np.array(images.coords(), dtype=float)
        for step, delta in enumerate(d["steps"]):
            x = x.copy()
            x[n:-n] += np.array(delta, dtype=float)            # interior images move, end images stay
            tot = float(M.total_energy(x, images, method, 2, False))
            der = np.array(M.derivative(x, images, method, 2, False), dtype=float)
            es, gs = [], []
            for i, image in enumerate(images):
                if not np.array_equal(np.array(image.coordinates, dtype=float).flatten(), x[i * n:(i + 1) * n]):
                    fails.append(("total_energy|image-not-at-requested-geometry", f"step {step}: image {i} is not at its block of x"))
                    return fails
                e, g = fresh(image) if 0 < i < len(images) - 1 else (float(image.energy), np.array(image.gradient, dtype=float))
                es.append(e)
                gs.append(g)
                if 0 < i < len(images) - 1 and (image.energy is None or image.gradient is None or
                                                not vclose([float(image.energy)], [e], 1e-12) or not vclose(image.gradient, g, 1e-12)):
                    fails.append(("total_energy|stale-energy-or-gradient",
                                  f"{d['method']} band of {d['n']} images, step {step}: image {i} moved to {x[i * n:(i + 1) * n].tolist()} but carries "
                                  f"E = {None if image.energy is None else float(image.energy)!r} (fresh evaluation: {e!r}), gradient "
                                  f"{None if image.gradient is None else np.array(image.gradient).tolist()} (fresh: {g.tolist()})"))
                    return fails
            if not vclose([tot], [sum(es) - len(es) * min(es)], 1e-10):
                fails.append(("total_energy|value", f"step {step}: returned {tot!r}, sum of relative energies is {sum(es) - len(es) * min(es)!r}"))
            if der.shape != x.shape or np.any(der[:n] != 0) or np.any(der[-n:] != 0):
                fails.append(("derivative|end-block-nonzero", f"step {step}: end blocks {der[:n].tolist()} {der[-n:].tolist()}"))
    finally:
        M.energy_gradient = orig
    return fails


class _ImageProbe:
    """minimal stand-in object for evaluating the analytic potential at an image's current geometry"""
    def __init__(self, image):
        self.coordinates = np.array(image.coordinates, dtype=float)
        self.energy = self.gradient = None


def oracle_config(d):
    """Images(init_k, min_k, max_k): the configured bounds must contain the constant every image starts with
    (otherwise the constants are outside the bounds before any update), and max_k > min_k."""
    from autode.neb.original import Images
    from autode.values import ForceConstant
    try:
        imgs = Images(init_k=ForceConstant(d["init_k"]), min_k=ForceConstant(d["min_k"]), max_k=ForceConstant(d["max_k"]))
    except (AssertionError, ValueError):
        ok = d["min_k"] < d["max_k"] and d["min_k"] <= d["init_k"] <= d["max_k"]
        return [("Images.__init__|rejects-consistent-bounds", f"{d} refused")] if ok else []
    if not d["min_k"] < d["max_k"]:
        return [("Images.__init__|accepts-min_k-not-below-max_k", f"{d} accepted")]
    imgs.append_species(_species([0, 0, 0, 0.8, 0, 0]))
    k = kphys(imgs[0].k)
    if not d["min_k"] - TOL <= k <= d["max_k"] + TOL:
        return [("Images.__init__|init_k-outside-configured-bounds",
                 f"Images(init_k={d['init_k']}, min_k={d['min_k']}, max_k={d['max_k']}) is accepted: every image starts with k = {k} "
                 f"outside [{d['min_k']}, {d['max_k']}]")]
    return []


def guarded(kind, fn, d, nres):
    """Run an oracle under a time limit; an exception raised from inside the repository's code, or the
    implementation not returning within the limit (e.g. partition's unbounded while loop never reaching
    max_delta), is itself a failure of the property on this input (a harness bug is re-raised)."""
    import signal

    def on_alarm(signum, frame):
        raise OracleTimeout()

    if TIMED_OUT.get(kind, 0) >= 2:      # two replays of a hang are enough; do not spend the whole budget on it
        TIMED_OUT[kind] += 1
        return [] if nres == 1 else ([],) + (None,) * (nres - 1)
    old_handler = signal.signal(signal.SIGALRM, on_alarm)
    signal.alarm(ORACLE_TIME_LIMIT)
    try:
        return fn(d)
    except OracleTimeout:
        TIMED_OUT[kind] = TIMED_OUT.get(kind, 0) + 1
        f = [(f"{kind}|implementation-does-not-terminate", f"no result within {ORACLE_TIME_LIMIT} s")]
        return f if nres == 1 else (f,) + (None,) * (nres - 1)
    except Exception as e:  # noqa
        tb = e.__traceback__
        in_repo = False
        while tb is not None:
            in_repo |= tb.tb_frame.f_code.co_filename.startswith(REPO.rstrip("/") + "/")
            tb = tb.tb_next
        if not in_repo:
            raise
        f = [(f"{kind}|implementation-raises", f"{type(e).__name__}: {str(e)[:300]}")]
        return f if nres == 1 else (f,) + (None,) * (nres - 1)
    finally:
        signal.alarm(0)
        signal.signal(signal.SIGALRM, old_handler)


SLOW = {"partition": (lambda d: oracle_partition(d), 3), "optimise": (lambda d: oracle_optimise(d), 1),
        "from_end_points": (lambda d: oracle_from_end_points(d), 1)}


def _slow_worker(job):
    """One slow implementation oracle (IDPP relaxations / scipy / ProcessPool inside) in a forked worker process; the
    result is returned together with the fields the oracle added to its input dict."""
    kind, d = job
    np.seterr(all="ignore")
    res = guarded(kind, SLOW[kind][0], d, SLOW[kind][1])
    return res, {k: v for k, v in d.items() if k.startswith("_")}


ORACLES = {"band": lambda d: oracle_band(d)[0], "interp": lambda d: oracle_interp(d)[0],
           "from_end_points": oracle_from_end_points, "maxdist": lambda d: oracle_maxdist(d)[0],
           "partition": lambda d: oracle_partition(d)[0], "ci_sequence": oracle_ci_sequence, "config": oracle_config,
           "optimise": oracle_optimise, "energy_sequence": oracle_energy_sequence}


# ============================================================================================
# Coq terms
def q_opt_list(v):
    return "None" if v is None else f"(Some {qc_list(list(v))})"


def band_terms(band, obs):
    """Correspondence terms for one band -> [(term, description)]."""
    out = []
    m, n = band["m"], 3 * band["natoms"]
    es, ks, xs, gs = band["energies"], band["ks"], band["coords"], band["grads"]
    # derivative with the climbing image
    if "derivative" in obs and not obs["degenerate"]:
        d = obs["derivative"]
        exp = "None" if d is None or d.shape != (m * n,) else f"(Some {qc_mat(d.reshape(m, n).tolist())})"
        rows = [f"({qc(es[i])}, {qc(ks[i])}, {qc_list(xs[i])}, {qc_list(gs[i])}, {coq_bool(band.get('ci') == i)})" for i in range(m)]
        out.append((f"check_derivative {coq_nat(n)} {coq_list(rows)} {qc_list(obs.get('derivative_norms', []))} {exp}",
                    {"kind": "band", "what": "derivative"}))
    for adaptive in (True, False):
        k2 = obs.get(f"ks_{adaptive}")
        out.append((f"check_increment {coq_bool(adaptive)} {qc(band['min_k'])} {qc(band['max_k'])} {qc_list(es)} {qc_list(ks)} {q_opt_list(k2)}",
                    {"kind": "band", "what": f"increment adaptive={adaptive}"}))
    return out


def triple_terms(band, obs):
    """tangent / force / climbing force of the middle image of a 3-image band."""
    out = []
    if band["m"] != 3 or 1 in obs["degenerate"]:
        return out
    n = 3 * band["natoms"]
    es, ks, xs, g = band["energies"], band["ks"], band["coords"], band["grads"][1]
    raised = obs["taus"].get(1, None) is None
    cands = qc_list(obs["norms"].get(1, []))
    args = f"{coq_nat(n)} {qc(es[0])} {qc(es[1])} {qc(es[2])}"
    geo = f"{qc_list(xs[0])} {qc_list(xs[1])} {qc_list(xs[2])}"
    out.append((f"check_tau {args} {geo} {cands} {q_opt_list(None if raised else obs['taus'][1])}", {"kind": "band", "what": "tau"}))
    out.append((f"check_force false {args} {qc(ks[0])} {qc(ks[2])} {geo} {qc_list(g)} {cands} "
                f"{q_opt_list(None if raised else obs['forces'][1])}", {"kind": "band", "what": "get_force"}))
    out.append((f"check_force true {args} {qc(ks[0])} {qc(ks[2])} {geo} {qc_list(g)} {cands} "
                f"{q_opt_list(None if raised else obs['ci_forces'][1])}", {"kind": "band", "what": "CImage.get_force"}))
    return out


Z = {"H": 1, "C": 6, "N": 7, "O": 8}


def sp_term(labels, flat):
    return f"({coq_list([coq_nat(Z[s]) for s in labels])}, {qc_list(flat)})"


class Ids:
    """image identity = coordinates rounded to 1e-8"""
    def __init__(self):
        self.ids, self.coords = {}, []

    def __call__(self, flat):
        k = tuple(np.round(np.asarray(flat, dtype=float), 8).tolist())
        if k not in self.ids:
            self.ids[k] = len(self.coords)
            self.coords.append(np.asarray(flat, dtype=float))
        return self.ids[k]


def coq_n(k):
    return f"{int(k)}%N"


def dtable_term(pairs, coords_of):
    """two-level distance table for the image-id pairs `pairs`"""
    rows = {}
    for (a, b) in sorted(pairs):
        dd = np.linalg.norm(coords_of(a).reshape(-1, 3) - coords_of(b).reshape(-1, 3), axis=1)
        rows.setdefault(a, []).append(f"({coq_n(b)}, {qc_list(dd.tolist())})")
    return coq_list([f"({coq_n(a)}, {coq_list(r)})" for a, r in sorted(rows.items())])


def partition_term(d, res):
    tag, final, calls = res
    ids = Ids()
    band = [ids(x) for x in d["coords"]]
    brows, seen, inconsistent = {}, {}, False
    pairs = set()
    for (l, r, num, resc) in calls:
        key = (ids(l), ids(r), num)
        val = None if resc is None else tuple(ids(x) for x in resc)
        if key in seen:
            inconsistent |= seen[key] != val
            continue
        seen[key] = val
        brows.setdefault(key[0], []).append(
            f"({coq_n(key[1])}, {coq_nat(key[2])}, " + ("None" if val is None else f"Some {coq_list([coq_n(v) for v in val])}") + ")")
        if val:
            pairs |= set(zip(val, val[1:]))
    fin = [ids(x) for x in final]
    pairs |= set(zip(fin, fin[1:]))
    dtab = dtable_term(pairs, lambda a: ids.coords[a])
    btab = coq_list([f"({coq_n(l)}, {coq_list(r)})" for l, r in sorted(brows.items())])
    natoms = len(d["labels"])
    sel = list(range(natoms)) if d["idxs"] is None else d["idxs"]
    exp = {"ok": f"(POk {coq_list([coq_n(v) for v in fin])})", "assertion": "PAssertion", "runtime": "PRuntimeError",
           "value": "PValueError"}[tag]
    term = (f"check_partition {dtab} {btab} {coq_list([coq_nat(j) for j in sel])} {qc(d['max_delta'])} "
            f"{coq_list([coq_n(v) for v in band])} {exp}")
    return term, inconsistent


# ============================================================================================
MOLS = {
    "H3": (["H", "H", "H"], [0, 0, 0, 0.8, 0, 0, 2.5, 0, 0], [0, 0, 0, 1.7, 0, 0, 2.5, 0, 0]),
    "H2O": (["O", "H", "H"], [0, 0, 0, 0.96, 0, 0.1, -0.3, 0.9, 0], [0, 0, 0, 1.5, 0.2, 0.1, -0.3, 1.4, 0.3]),
    "H2": (["H", "H"], [0, 0, 0, 0.75, 0, 0], [0.1, 0, 0, 1.6, 0.2, 0]),
    "HCN": (["H", "C", "N"], [-1.1, 0, 0, 0, 0, 0, 1.15, 0, 0], [0.6, 1.0, 0, 0, 0, 0, 1.2, 0.1, 0]),
}


def all_cases(ctx):
    """The generated inputs of this run, by kind."""
    rng, full = ctx.rng, not ctx.quick
    mmax = 20 if full else 8
    bands, triples = [], []
    for m in range(2, mmax + 1):
        for profile in PROFILES:
            reps = 2 if full else 1
            for _ in range(reps):
                natoms = rng.choice([1, 2, 3]) if full else rng.choice([1, 2])
                if m > 12:
                    natoms = min(natoms, 2)
                bands.append(gen_band(rng, m, natoms, profile))
    for profile in PROFILES:
        for _ in range(12 if full else 2):
            triples.append(gen_band(rng, 3, rng.choice([1, 2, 3]) if full else rng.choice([1, 2]), profile))
    # energy triples covering every ordering / tie pattern exactly once more
    for (a, b, c) in [(0, 1, 2), (2, 1, 0), (0, 2, 1), (1, 2, 0), (1, 0, 2), (2, 0, 1), (1, 1, 1), (1, 2, 1), (1, 0, 1),
                      (1, 1, 2), (2, 1, 1), (1, 1, 0), (0, 1, 1)]:
        t = gen_band(rng, 3, 2, "random")
        t["energies"] = [a / 4.0, b / 4.0, c / 4.0]
        t["profile"] = f"order{a}{b}{c}"
        triples.append(t)
    # energy gaps far below any "numerically equal" threshold one might be tempted to add (4e-8 Ha): still ordered
    for (a, b, c) in [(0, 1, 2), (2, 1, 0), (0, 2, 1), (1, 0, 2)]:
        t = gen_band(rng, 3, 2, "random")
        t["energies"] = [0.25 + a * 4e-8, 0.25 + b * 4e-8, 0.25 + c * 4e-8]
        t["profile"] = f"tinygap{a}{b}{c}"
        triples.append(t)
    mixed = []
    for m in range(3, (mmax if full else 6) + 1):
        for profile in (["up", "peak", "peak", "valley"] if full else ["peak"]):      # only a peaked band is updated
            mixed.append(gen_mixed_k_band(rng, m, rng.choice([1, 2]), profile))
    ci_seqs = []
    for m in ([4, 5, 6, 8, 12] if full else [5, 7]):
        for wait in (0, 2):
            band = gen_band(rng, m, rng.choice([1, 2]), "random")
            profs = []
            for step in range(5):
                p = 1 + (step * 2 + wait) % (m - 2)          # the peak wanders along the band
                vals = sorted(rng.sample(range(0, 129), m))
                order = sorted(range(m), key=lambda i: abs(i - p))
                es = [0.0] * m
                for rank, i in enumerate(order):
                    es[i] = vals[m - 1 - rank] / 64.0
                profs.append(es)
            ci_seqs.append({"band": band, "profiles": profs, "wait": wait})
    configs = [{"init_k": 0.1, "min_k": 0.2, "max_k": 0.3}, {"init_k": 0.1, "min_k": 0.01, "max_k": 0.05},
               {"init_k": 0.1, "min_k": 0.05, "max_k": 0.2}, {"init_k": 0.1, "min_k": 0.2, "max_k": 0.15}]
    for m in range(3, mmax + 1):
        for pattern in UNIT_PATTERNS:
            for profile in (["up", "down", "peak", "valley"] if full else [rng.choice(["peak", "valley", "up", "down"])]):
                mixed.append(gen_mixed_band(rng, m, rng.choice([1, 2]), profile, pattern))
    interps = []
    for name, (labels, a, b) in MOLS.items():
        for n in (range(0, 21) if (full or name in ("H3", "H2O")) else (0, 1, 2, 3, 5, 8)):
            interps.append({"mol": name, "labels": labels, "labels_b": labels, "a": a, "b": b, "n": n})
    for n in range(2, (21 if full else 9)):
        nat = rng.choice([1, 2, 3])
        a = [rng.randrange(-24, 25) / 8.0 for _ in range(3 * nat)]
        b = [rng.randrange(-24, 25) / 8.0 for _ in range(3 * nat)]
        interps.append({"mol": "randH", "labels": ["H"] * nat, "labels_b": ["H"] * nat, "a": a, "b": b, "n": n})
    feps = [{"mol": "H2O-permuted", "labels": ["O", "H", "H"], "labels_b": ["H", "O", "H"], "n": 3, "cineb": False,
             "a": [0, 0, 0, 0.96, 0, 0.1, -0.3, 0.9, 0], "b": [0.9, 0, 0, 0, 0, 0.1, -0.3, 0.9, 0]},
            {"mol": "HCN-permuted", "labels": ["H", "C", "N"], "labels_b": ["N", "C", "H"], "n": 4, "cineb": True,
             "a": [-1.1, 0, 0, 0, 0, 0, 1.15, 0, 0], "b": [1.15, 0, 0, 0, 0, 0, -1.1, 0, 0]}]
    for name, (labels, a, b) in MOLS.items():
        for n in ((list(range(2, 21)) if name == "H3" else [2, 3, 4, 5, 6, 7, 9, 12]) if full else [2, 3, 4, 6, 8]):
            feps.append({"mol": name, "labels": labels, "a": a, "b": b, "n": n, "cineb": (n % 3 == 0)})
    maxd = []
    for m in list(range(1, mmax + 1)):
        for rep in range(3 if full else 2):
            nat = rng.choice([1, 2, 3, 4])
            coords = [[rng.randrange(-32, 33) / 8.0 for _ in range(3 * nat)] for _ in range(m)]
            if rep == 0 and m >= 3:
                # the largest step is the LAST one, between images m-2 and m-1
                coords[-1] = [c + 9.0 for c in coords[-2]]
            if rep == 1 and m >= 3:
                # ... or the second one (pair (1, 2))
                coords[2] = [c - 11.0 for c in coords[1]]
            choice = rng.random()
            idxs = None if choice < 0.4 else sorted(rng.sample(range(nat), rng.randrange(1, nat + 1)))
            maxd.append({"coords": coords, "idxs": idxs, "cineb": rep == 1})
    maxd.append({"coords": [[0, 0, 0, 1, 0, 0], [0, 0, 1, 1, 0, 1], [0, 0, 3, 1, 0, 3]], "idxs": []})
    parts = []
    for name in (["H3", "H2O", "H2", "HCN"] if full else ["H3", "H2O", "H2"]):
        labels, a, b = MOLS[name]
        nat = len(labels)
        mid = [(x + y) / 2 + (0.15 if i % 3 == 1 else 0.0) for i, (x, y) in enumerate(zip(a, b))]
        for coords in ([a, b], [a, mid, b]) + (([a, mid, b, [y + 0.3 for y in b]],) if full else ()):
            for md in ([0.12, 0.2, 0.35, 2.0] if full else ([0.3, 0.45] if name == "H3" else [0.2, 0.45])):
                for idxs in ([None, [nat - 1], [0, 1][:nat]] if full else [None, [nat - 1]]):
                    parts.append({"mol": name, "labels": labels, "coords": [list(map(float, c)) for c in coords],
                                  "max_delta": md, "idxs": idxs})
    parts.append({"mol": "H2", "labels": ["H", "H"], "coords": [list(map(float, MOLS["H2"][1]))], "max_delta": 0.2, "idxs": None})
    # FINE partitions: (separation of the selected atom between adjacent images) / max_delta = 40..58, i.e. 40-60 images
    # have to be inserted between two original images (one selected atom on H2/H3 keeps from_end_points cheap)
    fine = [("H3", ["H", "H", "H"], [[0, 0, 0, 0.9, 0, 0, 3.2, 0, 0], [0, 0, 0, 1.4, 0, 0, 3.2, 0, 0]], 0.0125, [1]) if full else
            ("H2", ["H", "H"], [[0, 0, 0, 0.75, 0, 0], [0, 0, 0, 1.2, 0.1, 0]], 0.012, [1]),                             # ratio 40 (quick: H2, 38)
            ("H2", ["H", "H"], [[0, 0, 0, 0.8, 0, 0], [0, 0, 0, 1.3, 0, 0]], 0.01 if full else 0.0139, [1])]            # ratio 50 (quick: 36)
    if full:
        fine += [("H2", ["H", "H"], [[0, 0, 0, 0.8, 0, 0], [0, 0, 0, 1.25, 0.2, 0]], 0.0086, [1]),                        # ratio ~57
                 ("H2", ["H", "H"], [[0, 0, 0, 0.8, 0, 0], [0, 0, 0, 1.3, 0, 0]], 0.004, [1]),                            # ratio 125
                 ("H3", ["H", "H", "H"], [[0, 0, 0, 0.9, 0, 0, 3.2, 0, 0], [0, 0, 0, 1.15, 0, 0, 3.2, 0, 0],
                                            [0, 0, 0, 1.6, 0.1, 0, 3.2, 0, 0]], 0.0125, [1])]                             # ratios 20, ~37
    for name, labels, coords, md, idxs in fine:
        parts.append({"mol": name + "-fine", "labels": labels, "coords": [list(map(float, c)) for c in coords],
                      "max_delta": md, "idxs": idxs})
    # max_delta handed over as a Distance in another unit (the value below is always in Angstrom)
    h2 = [[0.0, 0, 0, 0.8, 0, 0], [0.0, 0, 0, 1.8, 0, 0]]
    for unit in (["pm", "bohr", "nm", "Å"] if full else ["pm", "bohr"]):
        parts.append({"mol": "H2-" + unit, "labels": ["H", "H"], "coords": h2, "max_delta": 0.3, "idxs": [1], "max_delta_unit": unit})
    # the IDPP relaxation of one trial band fails (RuntimeError, tolerated by partition): the bound must still hold
    h3 = MOLS["H3"]
    for md, k, idxs in ([(0.1, 3, None), (0.15, 2, [1]), (0.12, 4, None), (0.14, 2, [1])] if full else [(0.14, 2, [1])]):
        parts.append({"mol": "H3-idpp-fails", "labels": h3[0], "coords": [list(map(float, h3[1])), list(map(float, h3[2]))],
                      "max_delta": md, "idxs": idxs, "fail_calls": [k]})
    for md, k in [(0.2, 2), (0.16, 3)]:          # the same fault on H2 (cheap): separation / max_delta is not an integer
        parts.append({"mol": "H2-idpp-fails", "labels": ["H", "H"], "coords": [list(map(float, MOLS["H2"][1])), list(map(float, MOLS["H2"][2]))],
                      "max_delta": md, "idxs": [1], "fail_calls": [k]})
    parts.append({"mol": "H3-cineb", "labels": h3[0], "coords": [list(map(float, h3[1])), list(map(float, h3[2]))],
                  "max_delta": 0.25, "idxs": [1], "cineb": True})
    parts.append({"mol": "H2O-cineb", "labels": MOLS["H2O"][0], "coords": [list(map(float, MOLS["H2O"][1])), list(map(float, MOLS["H2O"][2]))],
                  "max_delta": 0.2, "idxs": None, "cineb": True})
    opts = [{"mol": name, "labels": MOLS[name][0], "a": MOLS[name][1], "b": MOLS[name][2], "n": n, "cineb": ci}
            for name, n, ci in ([("H3", 6, False), ("H3", 5, True), ("H2O", 4, False), ("H2O", 7, True), ("H2", 2, False), ("HCN", 9, True)]
                                if full else [("H3", 6, False), ("H3", 6, True)])]
    eseqs = []
    for name, n, method in ([("H3", 5, "idpp"), ("H2O", 4, "idpp"), ("H3", 6, "stand-in"), ("HCN", 7, "idpp"), ("H2O", 3, "stand-in")]
                            if full else [("H3", 5, "idpp"), ("H3", 4, "stand-in")]):
        nat3 = len(MOLS[name][1])
        steps = [[rng.randrange(-8, 9) / 256.0 for _ in range(nat3 * (n - 2))] for _ in range(3)]
        eseqs.append({"mol": name, "labels": MOLS[name][0], "a": MOLS[name][1], "b": MOLS[name][2], "n": n, "method": method, "steps": steps})
    return {"band": bands, "triple": triples, "mixed": mixed, "ci_sequence": ci_seqs, "config": configs, "optimise": opts,
            "energy_sequence": eseqs, "interp": interps, "from_end_points": feps, "maxdist": maxd, "partition": parts}


def run(ctx):
    sys.path.insert(0, REPO)
    np.seterr(all="ignore")
    import warnings
    warnings.filterwarnings("ignore")
    pins_changed = source_pins(ctx.pid, PINS)
    ctx.cov["source_pins"] = {"pinned": len(PINS), "changed": pins_changed}
    if pins_changed:
        ctx.log("source pins changed:", ", ".join(pins_changed))
    # 1. regenerate the model from the repository
    rc, out = sh(["python3", f"{VERIF}/tr/translate_c13.py"], timeout=120)
    ctx.log("translator:", out.strip()[:300])
    translated = rc == 0
    # rc 3 with "pinned shape": the translated functions were written, but a HAND-modelled function no
    # longer has the source the model was written from -> proofs / correspondence still run against the
    # (now unjustified) hand model for diagnosis, and the run cannot pass
    pinned_changed = rc == 3 and "pinned shape" in out
    ctx.cov["translator"] = {"ok": translated, "pinned_shape_changed": pinned_changed, "output": out.strip()[:900]}
    # the inputs of this run; the slow implementation oracles (IDPP / scipy inside) start now in forked worker processes
    # and the Coq build runs in a thread meanwhile: results are consumed below in the fixed case order (deterministic)
    import autode  # noqa: F401  (imported before forking so that the workers share it)
    import multiprocessing
    from concurrent.futures import ProcessPoolExecutor, ThreadPoolExecutor
    cases = all_cases(ctx)
    pool = ProcessPoolExecutor(max_workers=max(2, min(6, (NPROC_ or 4) // 2)), mp_context=multiprocessing.get_context("fork"))
    slow = {kind: [pool.submit(_slow_worker, (kind, d)) for d in cases[kind]] for kind in SLOW}

    def slow_result(kind, i, d):
        res, extra = slow[kind][i].result()
        d.update(extra)
        return res

    # 2. proofs over the regenerated model
    info = {"hygiene": [], "log_tail": out, "build_ok": False}
    proofs_ok = corr_built = False
    proofs_future = ThreadPoolExecutor(max_workers=1).submit(proofs_step, ctx) if (translated or pinned_changed) else None
    if not (translated or pinned_changed):
        ctx.cov["obligations"] += len(ctx.theorems_in("C13/Props.v"))
        ctx.cov["checker_cmd"] = "translator failed closed; proofs not attempted"
    # 3. implementation-side oracles on the generated inputs (always run: they give the replays)
    nfail, reported = 0, {}


    def report(kind, d, fails):
        nonlocal nfail
        for key, what in fails:
            nfail += 1
            if reported.get(key, 0) < 2:            # at most two replays per identifying key
                reported[key] = reported.get(key, 0) + 1
                ctx.finding(key, what, dict(d, kind=kind))

    terms, descr = [], []

    def add(term, dsc, stream, key, nontrivial=True):
        terms.append(term)
        descr.append(dict(dsc, stream=stream))
        ctx.count(stream, key, nontrivial, sample=dsc)

    skipped_deg = 0
    for kind in ("band", "triple", "mixed"):
        for band in cases[kind]:
            fails, obs = guarded("band", oracle_band, band, 2)
            report("band", band, fails)
            if obs is None:
                continue
            key = (band["m"], band["natoms"], band["profile"], tuple(band["energies"]), tuple(band["coords"][0]))
            ctx.count("impl-oracle-forces", key, nontrivial=band["m"] > 2)
            ctx.hist("impl-oracle-forces", f"profile={band['profile']}")
            ctx.hist("impl-oracle-forces", f"images={band['m']}")
            if obs["degenerate"]:
                skipped_deg += 1
                ctx.hist("impl-oracle-forces", "degenerate-tangent-skipped")
            dsc = {"images": band["m"], "atoms": band["natoms"], "profile": band["profile"], "energies": band["energies"]}
            if band.get("units"):
                ctx.hist("impl-oracle-forces", "energies-stored-in-mixed-units")
            ts = band_terms(band, obs) + (triple_terms(band, obs) if kind == "triple" else [])
            if kind == "mixed":     # the model has no units: only increment (energies converted to Ha) is compared
                ts = [(t, w) for t, w in ts if w["what"].startswith("increment")]
            for t, w in ts:
                add(t, dict(dsc, what=w["what"], band=band), "model-vs-impl-forces", (key, w["what"]), nontrivial=band["m"] > 2)
    for d in cases["interp"]:
        fails, sp = guarded("interp", oracle_interp, d, 2)
        report("interp", d, fails)
        ctx.count("impl-oracle-interpolation", (d["mol"], d["n"], tuple(d["a"])), nontrivial=d["n"] >= 3)
        exp = "None" if sp is None else "(Some " + coq_list(
            [sp_term([at.label for at in s.atoms], np.array(s.coordinates).flatten().tolist()) for s in sp]) + ")"
        add(f"check_interp {coq_nat(len(d['a']))} {sp_term(d['labels'], d['a'])} {sp_term(d['labels_b'], d['b'])} {coq_nat(d['n'])} {exp}",
            {"what": "interpolated_species", "case": d}, "model-vs-impl-interpolation", (d["mol"], d["n"], tuple(d["a"])), nontrivial=d["n"] >= 3)
    for d in cases["ci_sequence"]:
        report("ci_sequence", d, guarded("ci_sequence", oracle_ci_sequence, d, 1))
        ctx.count("impl-oracle-climbing-image-sequence", (d["band"]["m"], d["wait"], tuple(d["profiles"][0])), nontrivial=True)
    for i, d in enumerate(cases["optimise"]):
        report("optimise", d, slow_result("optimise", i, d))
        ctx.count("impl-oracle-optimiser-path", (d["mol"], d["n"], d["cineb"]), nontrivial=bool(d.pop("_moved", False)))
    for d in cases["energy_sequence"]:
        report("energy_sequence", d, guarded("energy_sequence", oracle_energy_sequence, d, 1))
        ctx.count("impl-oracle-energy-gradient-sequence", (d["mol"], d["n"], d["method"]), nontrivial=True)
    for d in cases["config"]:
        report("config", d, guarded("config", oracle_config, d, 1))
        ctx.count("impl-oracle-force-constant-bounds", tuple(d.values()), nontrivial=True)
    for i, d in enumerate(cases["from_end_points"]):
        report("from_end_points", d, slow_result("from_end_points", i, d))
        ctx.count("impl-oracle-from_end_points", (d["mol"], d["n"], d["cineb"]), nontrivial=d["n"] >= 3)
    for d in cases["maxdist"]:
        fails, got = guarded("maxdist", oracle_maxdist, d, 2)
        report("maxdist", d, fails)
        if got is None:
            continue
        m = len(d["coords"])
        nat = len(d["coords"][0]) // 3
        sel = list(range(nat)) if d["idxs"] is None else d["idxs"]
        key = (m, tuple(sel), tuple(d["coords"][0]))
        ctx.count("impl-oracle-max-distance", key, nontrivial=m >= 3)
        ctx.hist("impl-oracle-max-distance", f"images={m}")
        tab = dtable_term([(k, k + 1) for k in range(m - 1)], lambda a: np.array(d["coords"][a], dtype=float))
        exp = "MDErr" if got == "err" else ("MDNegInf" if got == -math.inf else f"(MDVal {qc(got)})")
        add(f"check_maxdist {tab} {coq_list([coq_nat(j) for j in sel])} {coq_list([coq_n(k) for k in range(m)])} {exp}",
            {"what": "max_atom_distance", "case": d}, "model-vs-impl-max-distance", key, nontrivial=m >= 3)
    inconsistent = 0
    for i, d in enumerate(cases["partition"]):
        fails, res, pinfo = slow_result("partition", i, d)
        report("partition", d, fails)
        if res is None:
            continue
        key = (d["mol"], len(d["coords"]), d["max_delta"], tuple(d["idxs"] or ()), d["idxs"] is None, d.get("max_delta_unit"),
               tuple(d.get("fail_calls") or ()), bool(d.get("cineb")))
        nontriv = pinfo["n_final"] > len(d["coords"])
        ctx.count("impl-oracle-partition", key, nontrivial=nontriv)
        ctx.hist("impl-oracle-partition", f"images {len(d['coords'])}->{pinfo['n_final']}")
        sel_ = list(range(len(d["labels"]))) if d["idxs"] is None else d["idxs"]
        if sel_ and len(d["coords"]) > 1:
            ratio = brute_max_distance(d["coords"], sel_) / d["max_delta"]
            ctx.hist("impl-oracle-partition", "separation/max_delta " + ("<2" if ratio < 2 else "2-8" if ratio < 8 else "8-32" if ratio < 32 else ">=32"))
        term, inc = partition_term(d, res)
        if inc:
            inconsistent += 1       # from_end_points gave two answers for the same arguments: not a function
            continue
        add(term, {"what": "partition", "case": d, "calls": pinfo["n_calls"], "images_after": pinfo["n_final"]},
            "model-vs-impl-partition", key, nontrivial=nontriv)
    ctx.cov["streams"].setdefault("impl-oracle-forces", {})["degenerate_skipped"] = skipped_deg
    ctx.cov["streams"].setdefault("impl-oracle-partition", {})["oracle_not_functional_skipped"] = inconsistent
    ctx.cov["oracle_timeouts"] = dict(TIMED_OUT)
    ctx.log(f"implementation oracles: {nfail} failures over "
            f"{sum(len(v) for v in cases.values())} generated inputs ({skipped_deg} degenerate-tangent bands skipped)")
    pool.shutdown(wait=True)
    if proofs_future is not None:
        proofs_ok, info = proofs_future.result()
        ctx.log("proofs:", "ok" if proofs_ok else "BROKEN")
        ctx.cov["print_assumptions"] = info.get("assumptions", {})
        corr_built = proofs_ok
        if not proofs_ok and not info["hygiene"]:
            corr_built, _ = ctx.coq_make(["C13/Corr.vo"])   # the model may still be runnable
            if not corr_built:
                import os
                from common import COQ
                vo = lambda f: os.path.join(COQ, f + "o")  # noqa: E731
                corr_built = all(os.path.exists(vo(f)) and os.path.getmtime(vo(f)) >= os.path.getmtime(os.path.join(COQ, f))
                                 for f in ("C13/Base.v", "gen/C13_Gen.v", "C13/Model.v", "C13/Corr.v"))
            ctx.log("proof failure:", info["log_tail"][-800:])
    # 4. correspondence
    corr_bad, corr_err = [], None
    if corr_built:
        bad, corr_err = ctx.coq_bad_indices(PRE, terms, per_file=24 if ctx.quick else 40, name="c13cases", timeout=900)
        corr_bad = [(descr[i], terms[i]) for i in bad]
        ctx.log(f"correspondence: {len(terms)} cases, {len(corr_bad)} disagreements" + (f"; coq error {corr_err[:400]}" if corr_err else ""))
        ctx.cov["disagreements"] = len(corr_bad)
        for dsc, _ in corr_bad[:6]:
            ctx.log("  disagreement:", {k: v for k, v in dsc.items() if k not in ("band", "case")})
    # 5. decide
    found_new = any(v.get("found_input") for v in ctx.violations)     # a concrete, not-known failing input exists
    if not translated:
        if not found_new:
            ctx.violation("translator failed closed: the anchored NEB code left the translatable vocabulary / the pinned shape of a "
                          "hand-modelled function, the property is not shown for it: " + out.strip()[:400],
                          {"kind": "untranslatable", "translator_output": out.strip()[:2000]}, found_input=False)
    if (translated or pinned_changed) and not proofs_ok:
        ctx.proof_failure(info, found_any_input=found_new)
    if pins_changed and not found_new and not (corr_bad or corr_err) and proofs_ok and translated:
        ctx.violation("hand model no longer pinned to the source: " + ", ".join(pins_changed),
                      {"kind": "source-pin", "changed": pins_changed}, found_input=False)
    if corr_bad or corr_err:
        # a disagreement is explained only by a finding about the SAME function (so that e.g. a listed/awaited finding
        # on partition cannot hide a silent change of increment)
        area = {"derivative": ("derivative|", "Image.", "CImage.", "band|"), "tau": ("Image._tau", "band|"),
                "get_force": ("Image.", "band|"), "CImage.get_force": ("CImage.", "Image._tau", "band|"),
                "increment": ("Images.increment|", "band|"), "interpolated_species": ("NEB._interpolated_species|", "interp|"),
                "max_atom_distance": ("NEB._max_atom_distance", "maxdist|"),
                "partition": ("NEB.partition|", "NEB.from_end_points|", "partition|")}
        unexplained = [(d, t) for d, t in corr_bad
                       if not any(k.startswith(area.get(str(d.get("what", "")).split(" ")[0], ("\0",))) for k in reported)]
        if unexplained or corr_err:
            ctx.violation(f"model and implementation disagree on {len(unexplained)} correspondence cases that no property-level oracle "
                          "on the implementation explains (first: " + ", ".join(sorted({str(d.get("what")) for d, _ in unexplained[:20]})) + ")",
                          {"kind": "correspondence", "first": [{k: v for k, v in d.items()} for d, _ in unexplained[:4]],
                           "coq_terms": [t for _, t in unexplained[:2]], "coq_error": corr_err}, found_input=False)
        if len(unexplained) < len(corr_bad):
            ctx.log(f"{len(corr_bad) - len(unexplained)} correspondence disagreements explained by implementation-level findings on the same function")


def replay(ctx, obj):
    sys.path.insert(0, REPO)
    np.seterr(all="ignore")
    rep = obj.get("replay", {})
    kind = rep.get("kind")
    if kind not in ORACLES:
        print("replay: stored object has no replayable input (kind =", kind, "):", obj.get("what"))
        return 1
    fails = guarded(kind, ORACLES[kind], rep, 1)
    for key, what in fails:
        print(f"replay: {key}: {what}")
    print("replay:", "REPRODUCED" if fails else "not reproduced", "; stored:", obj.get("what"))
    return 1 if fails else 0


MANIFEST = {
    "technique": "Coq proof over a model regenerated from source (ast translator) + hand model, with model/implementation "
                 "correspondence and implementation-side NEB-definition oracles",
    "level_text": ("Machine-checked theorems (coq/C13/Props.v, closed under the global context): for every field and every "
                   "dimension the force on an interior image is spring*tau_hat - (g - (g.tau_hat)tau_hat) with F.tau_hat = "
                   "k_r|x_r-x| - k_l|x-x_l| and perpendicular part -g_perp; the climbing image feels -g + 2(g.tau_hat)tau_hat "
                   "(parallel component of the true force inverted, perpendicular kept); the tangent selection is total (never "
                   "raises, ties included), follows the energy ordering in all strict cases and is the bisector on ties; "
                   "derivative() gives identically zero blocks for both end images for every band of >= 2 images (partial for 'end "
                   "images never move': the optimiser itself is measured); an adaptive update is skipped exactly when the peak equals the "
                   "higher end point (Energy.__eq__), otherwise constants lie in [min_k, max_k], are monotone, strictly increasing at/above "
                   "E_ref, min_k below it and max_k at the top; a band started with init_k inside the bounds keeps every constant inside them "
                   "over any sequence of updates; interpolation keeps the end points, has "
                   "exactly n evenly spaced images x_0 + i/(n-1)(x_{n-1}-x_0) and keeps atom order; the maximum image distance "
                   "is the maximum over ALL consecutive pairs; partition's result respects max_delta on every consecutive pair "
                   "and selected atom, keeps the end points and every original image (if it returns).  The tangent/force/adaptive-k definitions are regenerated from "
                   "/repo on every run; derivative/interpolation/max-distance/partition are a hand model tied by correspondence and by a "
                   "structural pin of their source (fail closed).  end_forces_zero_partial covers the gradient handed to the optimiser "
                   "only; that the end images do not move during the optimisation is measured (IDPP path and the NEB/CINEB._minimise path "
                   "with a stand-in potential).  Which image climbs over several iterations (CImages.increment), unit-carrying force "
                   "constants / max_delta, non-contiguous gradient arrays, permuted end-point atom order, init_k vs bounds and injected "
                   "IDPP failures inside partition are implementation oracles only."),
    "level_note": ("Trusted: Coq kernel; tr/translate_c13.py and its fixed text for Python builtins (validated each run by the "
                   "correspondence); the hand model of derivative, _interpolated_species, _max_atom_distance_between_images and "
                   "partition (validated each run); sqrt/np.linalg.norm enters as an oracle value with the premise nrm^2 = tau.tau "
                   "(theorems) and is validated to 1e-12 in exact arithmetic (correspondence); from_end_points' IDPP relaxation and "
                   "scipy L-BFGS-B are oracles: partition_bound assumes they keep the two end images, which the harness measures "
                   "on every generated case; exact rationals stand for doubles up to rounding (1e-9).  IDPP target distances "
                   "(idpp.py) are exercised only through from_end_points/partition on the implementation, not modelled."),
}
