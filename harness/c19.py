"""C19 — conformer pruning/selection and complex assembly (DESIGN 6/C19).

Tie: coq/C19/Model.v is a hand model of the literal loops of autode/conformers/conformers.py,
the selection part of Species.find_lowest_energy_conformer and the bookkeeping of
autode/species/complex.py.  Every run (1) re-checks the theorems of coq/C19/Props.v, (2) runs the
real methods and the model on the same generated conformer sets / complexes and compares retained
indices or error class (ctx.coq_bad_indices), (3) evaluates the property's sentences directly on
the implementation's results (exact rational oracles) so that every failure comes with a concrete
replay, (4) replays the `_refuted` witnesses of Props.v, and the inputs on which the code violated the
property before the `fix:` commits (stale index crash, deletion against later-deleted conformers,
Atoms.__radd__ order), on the implementation.
"""
import inspect
import itertools
import math
import os
import sys
from fractions import Fraction

import numpy as np

from common import COQ, REPO, source_pins, coq_bool, coq_list, coq_nat, coq_z, frac, qc, qc_mat, sh, shrink_list

TRUSTED_BASE = [
    "Coq 8.16.1 kernel + coqc (vm_compute only in the concrete `_refuted` witnesses / non-vacuity examples and in the correspondence shards; no native_compute)",
    "Print Assumptions: every C19 theorem is closed under the global context (no axioms); thorough tier: coqchk -o on AV.C19.Props/Corr reports Axioms: <none>",
    "hand model coq/C19/Model.v of the literal index loops (prune_on_energy/rmsd, remove_no_energy, prune_diff_graph, lowest_energy, prune, the selection tail of find_lowest_energy_conformer, Complex.__init__/atom_indexes/union graph), tied by the correspondence streams of harness/c19.py on every run",
    "oracles: the implementation's Kabsch heavy-atom RMSD matrix and its make_graph+is_isomorphic bit per conformer are passed to the model, and are cross-checked every run against independent implementations in the harness (indep_heavy_rmsd: SVD singular values; indep_graph: covalent-radius rule + networkx isomorphism); nx.disjoint_union_all; np.std/np.average/np.argmin; scipy distance_matrix; Atom.rotate",
    "exact rationals stand for IEEE doubles: energies and thresholds are generated as low-bit dyadic rationals so that differences are exact; cases whose n-sigma decision margin is below 1e-9 relative (or an exact non-zero tie) and RMSD cases with |d - tol| < 1e-9 are skipped and counted",
    "rigid-body conformer generation is checked on the implementation only (internal distances 1e-8, inter-molecular distance > 2 A); the Coq theorems about it assume the rotation is an orthogonal matrix and use fuel for the while-loop",
    "harness generators, the literal printer, Python identity of distinct Conformer objects (`other is not conf`)",
]
ASSUMPTIONS = [
    "Arithmetic is exact over Q; sigma enters squared ((e-mu)^2 > n_sigma^2 * max(var, 1e-16)), equivalent to the code's |e-mu|/max(sigma,1e-8) > n_sigma for sigma' > 0",
    "Lists holding the same conformer object at several positions are modelled positionally (as the code does: `o_idx != idx`, del self[idx]) and exercised by the stream `shared`",
    "Energies are compared in Hartree as given (unit conversion of e_tol is property C06)",
    "The RMSD oracle d is whatever calc_heavy_atom_rmsd returns; symmetry of d is used only where a theorem says so",
]
RULE = ("streams: energy-prune (0..40 conformers, clusters/duplicates/chains/outliers/None masks x e_tol grid x n_sigma grid), "
        "rmsd-prune (shape families with perturbations and rigid motions x tolerance grid), list-ops (remove_no_energy, lowest_energy, "
        "prune_diff_graph), prune (composition), select (find_lowest_energy_conformer tail with default thresholds), complex "
        "(1..3 molecules from a pool x charges x multiplicities x copy flag, plus the empty complex), rigid-body (implementation only); "
        "a case is non-trivial when something is deleted / an error is raised / more than one molecule is involved; distinct by full input")

# every function of /repo that coq/C19/Model.v (and the exact oracles of this file that mirror the code's structure:
# energy_stats / is_outlier / the expected conformer count of stream_rigid) was written from.  No translator: all pinned.
PINS = [("autode/conformers/conformers.py", q) for q in (
    "Conformers.lowest_energy", "Conformers.prune", "Conformers.prune_on_energy", "Conformers.prune_on_rmsd",
    "Conformers.prune_diff_graph", "Conformers.remove_no_energy")] + [
    ("autode/species/species.py", "Species.find_lowest_energy_conformer"),      # Model.select: order of the calls
    ("autode/species/species.py", "Species._set_lowest_energy_conformer"),      # RuntimeError when lowest_energy is None
    ("autode/utils.py", "requires_conformers"),                                 # NoConformers when nothing is left
    ("autode/species/complex.py", "Complex.__init__"),                          # c_atoms / c_charge / c_mult / c_graph
    ("autode/species/complex.py", "Complex.atom_indexes"),
    ("autode/species/complex.py", "Complex.n_molecules"),
    ("autode/species/complex.py", "Complex._generate_conformers"),              # conformer count, n < 2 case
    ("autode/species/complex.py", "get_complex_conformer_atoms"),               # Model.rigid / push
    ("autode/atoms.py", "Atoms.__add__"), ("autode/atoms.py", "Atoms.__radd__"),  # Model.add_atoms (reflected dispatch)
    ("autode/mol_graphs.py", "union"),                                          # Model.union_from
    ("autode/geom.py", "calc_heavy_atom_rmsd"),                                 # the oracle d: heavy atoms only, 0.0 without any
    ("autode/geom.py", "calc_rmsd"), ("autode/geom.py", "get_rot_mat_kabsch"),   # ... after optimal alignment (cross-checked too)
    ("autode/species/species.py", "Species.reorder_atoms"),                     # node order of a molecule's graph (Model.g_order)
    ("autode/mol_graphs.py", "reorder_nodes"), ("autode/mol_graphs.py", "make_graph"),   # nodes inserted in label order
    ("autode/conformers/conformer.py", "Conformer.optimise"),                   # atoms = None on AtomsNotFound (stream atomless)
]

SLICE = ["lib/Sums.v", "lib/QcInst.v", "C19/Model.v", "C19/Lemmas.v", "C19/Props.v", "C19/Corr.v"]
PRE = ("From Coq Require Import ZArith QArith Qcanon List Bool.\nFrom AV.lib Require Import QcInst.\n"
       "From AV.C19 Require Import Model Corr.\nImport ListNotations.\n")

U = Fraction(1, 16)
SIGMA_FLOOR_SQ = Fraction(1, 10**16)

K_LT1 = "Conformers.prune_on_energy|n_sigma<1-empties"
K_GE1 = "Conformers.prune_on_energy|n_sigma>=1-empties"
K_LOW = "Conformers.prune_on_energy|lowest-lost"
K_IDEM = "Conformers.prune_on_energy|not-idempotent"
K_IDEM_PRUNE = "Conformers.prune|not-idempotent(recomputed-outliers)"

K_REORDER = "Complex.__init__|graph-misaligned-after-reorder_atoms"
PATCH_REORDER = "(repaired by fix e56d617: mol_graphs.reorder_nodes re-inserts the nodes in label order)"
K_ETOL_NONE = "Conformers.prune_on_energy|e_tol-None-raises"
K_ORDER = "Complex.__init__|atoms-order-3+molecules"
K_CAUSE = "Conformers.prune_on_energy|deleted-without-cause"
PATCH_LT1 = ("proposed patch (autode/conformers/conformers.py, prune_on_energy, before the loop): "
             "`if n_sigma < 1: raise ValueError('n_sigma must be at least 1: below one standard deviation every conformer can "
             "be an outlier')` — for n_sigma >= 1 non-emptiness is proved (Props.energy_prune_nonempty)")
PATCH_ORDER = ("Atoms.__radd__ must return list(other) + list(self) (other + self), not self.__add__(other); or Complex.__init__ "
               "must build the atoms with an explicit loop in molecule order")


# ------------------------------------------------------------------------------------------------
# Coq literals
def coq_oq(e):
    return "None" if e is None else f"(Some {qc(e)})"


def coq_ens(ens):
    return "[" + "; ".join(coq_oq(e) for e in ens) + "]"


def coq_nats(xs):
    return "[" + "; ".join(coq_nat(x) for x in xs) + "]"


def coq_expect(res):
    if isinstance(res, list):
        return f"(EIdx {coq_nats(res)})"
    return "ENoConf" if res == "noconf" else "ECrash"


# ------------------------------------------------------------------------------------------------
# implementation drivers
def _imports():
    from autode.atoms import Atom
    from autode.conformers import Conformer, Conformers
    return Atom, Conformer, Conformers


# How the conformers of the current case are named.  Species.__eq__ compares str(species) (name, charge,
# mult, atom labels - not geometry or energy), so conformers sharing a name are `==`: anything in the
# code that goes through list.remove / list.index / `in` then picks the FIRST equal-looking conformer.
# Retained conformers are always identified by a hidden tag on the OBJECT (_vtag), never by name or ==.
NAME_MODES = ["same", "same", "same", "unique", "mod2", "mod3"]
NAME_MODE = "same"


def set_name_mode(mode):
    global NAME_MODE
    NAME_MODE = mode
    return mode


def conf_name(i):
    if NAME_MODE == "unique":
        return f"c{i}"
    if NAME_MODE == "mod2":
        return f"g{i % 2}"
    if NAME_MODE == "mod3":
        return f"g{i % 3}"
    return None        # the constructor's default name "conf" for every conformer


def build_confs(ens, coords=None, labels=("C", "O")):
    """Conformers with the given energies (None = no energy); coords[i] = list of xyz per atom."""
    Atom, Conformer, Conformers = _imports()
    cs = Conformers()
    for i, e in enumerate(ens):
        if coords is None:
            xyz = [(0.0, 0.0, 0.01 * i), (1.2, 0.0, 0.0)]
            lab = ("C", "O")
        else:
            xyz, lab = coords[i], labels
        atoms = [Atom(l, x=float(p[0]), y=float(p[1]), z=float(p[2])) for l, p in zip(lab, xyz)]
        nm = conf_name(i)
        c = Conformer(atoms=atoms) if nm is None else Conformer(name=nm, atoms=atoms)
        if e is not None:
            c.energy = float(e)
        c._vtag = i
        cs.append(c)
    return cs


def run_method(cs, fn):
    """Run an in-place Conformers method; -> retained tags | 'noconf' | 'crash:<Type>'."""
    from autode.exceptions import NoConformers
    try:
        fn(cs)
        return [c._vtag for c in cs]
    except NoConformers:
        return "noconf"
    except Exception as e:  # noqa
        return "crash:" + type(e).__name__


def impl_energy(ens, e_tol, n_sigma):
    return run_method(build_confs(ens), lambda cs: cs.prune_on_energy(e_tol=e_tol, n_sigma=n_sigma))


# ------------------------------------------------------------------------------------------------
# exact oracles for the sentences of the property (energy pruning)
def energy_stats(F):
    w = [f for f in F if f is not None]
    mu = sum(w) / len(w)
    var = sum((f - mu) ** 2 for f in w) / len(w)
    return mu, max(var, SIGMA_FLOOR_SQ)


def is_outlier(f, mu, varlb, n_sigma):
    ns = frac(n_sigma)
    return True if ns < 0 else (f - mu) ** 2 > ns * ns * varlb


def _dyadic(q, bits=40):
    d = q.denominator
    return d & (d - 1) == 0 and d < 2**bits and abs(q.numerator) < 2**bits


def float_exact_stats(w, n_sigma):
    """True when np.average, np.std and |e-mu|/sigma are exact in IEEE doubles for these energies: every
    intermediate (sum, mean, deviations, squares, variance, its square root, the quotients) is a small dyadic
    rational, and correctly rounded +,-,*,/,sqrt return a representable exact result exactly."""
    from math import isqrt
    n = len(w)
    mu = sum(w) / n
    if not all(_dyadic(f) for f in w) or not _dyadic(mu):
        return False
    var = sum((f - mu) ** 2 for f in w) / n
    if not _dyadic(var) or var <= 0 or not all(_dyadic((f - mu) ** 2) for f in w):
        return False
    num, den = var.numerator, var.denominator
    rn, rd = isqrt(num), isqrt(den)
    if rn * rn != num or rd * rd != den:
        return False
    sigma = Fraction(rn, rd)
    if sigma < Fraction(1, 10**8):
        return False
    return all(_dyadic(abs(f - mu) / sigma) for f in w) and _dyadic(frac(n_sigma))


def energy_margin_ok(ens, n_sigma):
    """False when some n-sigma decision is too close to call in floating point."""
    F = [None if e is None else frac(e) for e in ens]
    w = [f for f in F if f is not None]
    if len(w) < 2 or frac(n_sigma) < 0:
        return True
    mu, varlb = energy_stats(F)
    thr = frac(n_sigma) ** 2 * varlb
    for f in w:
        d2 = (f - mu) ** 2
        if d2 == thr:
            # an exact non-zero tie (e.g. two distinct energies and n_sigma = 1: |e-mu| = sigma) is kept only when
            # the implementation's float arithmetic is provably exact for this input
            if d2 != 0 and not float_exact_stats(w, n_sigma):
                return False
        elif abs(d2 - thr) <= max(d2, thr) / 10**9:
            return False
    return True


def energy_sentences(ens, e_tol, n_sigma, retained):
    """Which sentences of the property fail for this result.  -> dict sentence -> detail"""
    out = {}
    if not isinstance(retained, list):
        out["raises"] = retained
        return out
    F = [None if e is None else frac(e) for e in ens]
    et = frac(e_tol)
    R = [(i, F[i]) for i in retained if F[i] is not None]
    for (i, a), (j, b) in itertools.combinations(R, 2):
        if abs(a - b) < et:
            out["close-pair"] = [i, j]
            break
    w = [f for f in F if f is not None]
    if len(w) >= 2:
        mu, varlb = energy_stats(F)
        outl = [f is not None and is_outlier(f, mu, varlb, n_sigma) for f in F]
    else:
        outl = [False] * len(F)
    # conformers without an energy are never deleted, the order is kept
    if [i for i in range(len(F)) if F[i] is None] != [i for i in retained if F[i] is None] or retained != sorted(set(retained)):
        out["energyless-deleted-or-reordered"] = True
    # Props.energy_prune_keeps_near_lowest (3rd conjunct): whatever is deleted is an outlier or within e_tol of a
    # RETAINED conformer
    idx = [i for i in range(len(F)) if F[i] is not None]
    lost = [i for i in idx if i not in retained and not outl[i] and not any(abs(F[i] - f) < et for _, f in R)]
    if lost:
        out["deleted-without-cause"] = lost[:5]
    if len(ens) > 0 and len(retained) == 0:
        out["empty"] = True
        return out
    nonout = [F[i] for i in idx if not outl[i]]
    if nonout:
        m = min(nonout)
        if not any(f == m or abs(f - m) < et for _, f in R):
            out["lowest-lost"] = float(m)
    return out


def second_pass_only_new_outliers(ens, n_sigma, first, second):
    """True when everything the second call removed is an outlier under the recomputed statistics."""
    F = [None if ens[i] is None else frac(ens[i]) for i in first]
    if sum(1 for f in F if f is not None) < 2:
        return False
    mu, varlb = energy_stats(F)
    removed = [i for i in first if i not in second]
    return all(ens[i] is not None and is_outlier(frac(ens[i]), mu, varlb, n_sigma) for i in removed)


class Findings:
    """Collect failing cases per key; report the smallest one (shrunk) per key at the end."""

    def __init__(self, ctx):
        self.ctx = ctx
        self.best = {}     # key -> (size, what, replay)
        self.count = {}

    def add(self, key, size, what, replay):
        self.count[key] = self.count.get(key, 0) + 1
        if key not in self.best or size < self.best[key][0]:
            self.best[key] = (size, what, replay)

    def flush(self):
        new = 0
        known = set(self.ctx.known_keys())
        for key in sorted(self.best):
            size, what, replay = self.best[key]
            if key not in known and replay.get("kind") == "energy":
                what, replay = shrink_energy_finding(self.ctx, key, what, replay)
            replay = dict(replay)
            replay["occurrences_in_this_run"] = self.count[key]
            self.ctx.finding(key, what, replay)
            if key not in known:
                new += 1
        return new


def shrink_energy_finding(ctx, key, what, replay):
    """Delta-debug the energy list of a failing prune_on_energy case (same key must still be produced)."""
    ens, e_tol, n_sigma = replay["energies"], replay["e_tol"], replay["n_sigma"]
    set_name_mode(replay.get("names", "same"))

    def collect(sub):
        tmp = Findings(ctx)
        classify_energy(sub, e_tol, n_sigma, impl_energy(sub, e_tol, n_sigma), tmp, replay.get("source", "") + " (shrunk)")
        return tmp

    def fails(sub):
        return energy_margin_ok(sub, n_sigma) and key in collect(sub).best

    if len(ens) <= 2:
        return what, replay
    small = shrink_list(ens, fails)
    if len(small) < len(ens) and fails(small):
        _, what2, rep2 = collect(small).best[key]
        rep2 = dict(rep2)
        rep2["shrunk_from"] = ens
        return what2, rep2
    return what, replay


def classify_energy(ens, e_tol, n_sigma, retained, fnd, source):
    """Evaluate the sentences on one implementation result and record findings."""
    s = energy_sentences(ens, e_tol, n_sigma, retained)
    rep = {"kind": "energy", "energies": ens, "e_tol": e_tol, "n_sigma": n_sigma, "retained": retained, "source": source,
           "names": NAME_MODE}
    hit = []
    if "raises" in s:
        key = f"Conformers.prune_on_energy|raises-{s['raises'].split(':')[-1]}"
        fnd.add(key, len(ens), f"prune_on_energy(e_tol={e_tol}, n_sigma={n_sigma}) raised {s['raises']} for energies {ens}", rep)
        return [key]
    if "close-pair" in s:
        key = "Conformers.prune_on_energy|retained-pair-within-e_tol"
        i, j = s["close-pair"]
        fnd.add(key, len(ens), f"prune_on_energy(e_tol={e_tol}, n_sigma={n_sigma}) on {ens} retains conformers {i} and {j} "
                f"with energies {ens[i]} and {ens[j]} (closer than e_tol)", rep)
        hit.append(key)
    if "energyless-deleted-or-reordered" in s:
        key = "Conformers.prune_on_energy|energyless-deleted-or-reordered"
        fnd.add(key, len(ens), f"prune_on_energy(e_tol={e_tol}, n_sigma={n_sigma}) on {ens} retains {retained}: a conformer without "
                f"an energy was deleted or the order changed", rep)
        hit.append(key)
    if "deleted-without-cause" in s:
        fnd.add(K_CAUSE, len(ens), f"prune_on_energy(e_tol={e_tol}, n_sigma={n_sigma}) on {ens} retains {retained}: conformers "
                f"{s['deleted-without-cause']} were deleted although they are neither outliers nor within e_tol of a retained "
                f"conformer", rep)
        hit.append(K_CAUSE)
    if "empty" in s:
        key = K_LT1 if frac(n_sigma) < 1 else K_GE1
        why = (f"every conformer can be more than n_sigma<1 standard deviations from the mean. {PATCH_LT1}" if key == K_LT1 else
               "for n_sigma >= 1 some conformer is within one standard deviation and must survive (Props.energy_prune_nonempty)")
        fnd.add(key, len(ens), f"prune_on_energy(e_tol={e_tol}, n_sigma={n_sigma}) empties the non-empty set {ens}: {why}", rep)
        hit.append(key)
    elif "lowest-lost" in s:
        fnd.add(K_LOW, len(ens), f"prune_on_energy(e_tol={e_tol}, n_sigma={n_sigma}) on {ens} retains {retained}: the lowest non-outlier "
                f"energy {s['lowest-lost']} has no retained conformer within e_tol (Props.energy_prune_keeps_near_lowest)", rep)
        hit.append(K_LOW)
    if isinstance(retained, list) and retained:
        again = run_method(build_confs([ens[i] for i in retained]),
                           lambda cs: cs.prune_on_energy(e_tol=e_tol, n_sigma=n_sigma))
        if isinstance(again, list):
            again = [retained[k] for k in again]
        if again != retained:
            rep2 = dict(rep)
            rep2["second_call"] = again
            if isinstance(again, list) and second_pass_only_new_outliers(ens, n_sigma, retained, again):
                # prefer examples with n_sigma >= 1 (the n_sigma < 1 class is a finding of its own)
                fnd.add(K_IDEM, len(ens) + (100 if frac(n_sigma) < 1 else 0), f"prune_on_energy(e_tol={e_tol}, n_sigma={n_sigma}) is not idempotent on {ens}: first call "
                        f"retains {retained}, a second call {again} (mean and sigma are recomputed from the survivors, so new "
                        f"outliers appear); cf. Props.energy_prune_idempotent_partial", rep2)
                hit.append(K_IDEM)
            else:
                key = "Conformers.prune_on_energy|not-idempotent-other"
                fnd.add(key, len(ens), f"prune_on_energy(e_tol={e_tol}, n_sigma={n_sigma}) on {ens}: first call {retained}, second "
                        f"call {again}, not explained by recomputed outliers", rep2)
                hit.append(key)
    return hit


# ------------------------------------------------------------------------------------------------
# generators
def gen_energies(rng, nmax):
    n = rng.choice([0, 1, 2, 2, 3, 3, 4, 5, 6, 8, nmax, rng.randint(0, nmax), rng.randint(0, nmax)])
    n = min(n, nmax)
    kind = rng.choice(["clusters", "clusters", "dups", "chain", "outliers", "outliers", "uniform", "twolevel"])
    es = []
    if kind == "twolevel":      # two energy levels, equally populated: every conformer is exactly one sigma from the mean
        a, gap = Fraction(rng.randint(-16, 16), 4), Fraction(rng.choice([1, 2, 4, 8, 16]), 4)
        es = [a] * (n // 2) + [a + gap] * (n // 2)
        rng.shuffle(es)
    if kind in ("clusters", "outliers"):
        centers = [Fraction(rng.randint(-8, 8), 2) for _ in range(rng.randint(1, 4))]
        es = [rng.choice(centers) + rng.choice([-3, -2, -1, 0, 0, 1, 2, 3]) * U for _ in range(n)]
        if kind == "outliers" and n:
            for _ in range(rng.randint(1, 3)):
                es[rng.randrange(n)] = rng.choice([-1, 1]) * Fraction(rng.choice([8, 16, 50, 200])) + rng.choice([0, 1, 2]) * U
    elif kind == "dups":
        vals = [Fraction(rng.randint(-32, 32), 16) for _ in range(rng.randint(1, 3))]
        es = [rng.choice(vals) for _ in range(n)]
    elif kind == "chain":
        step = rng.choice([1, 2, 3]) * U
        es = [Fraction(rng.randint(-4, 4)) + i * step for i in range(n)]
        o = rng.choice(["up", "down", "shuffle"])
        if o == "down":
            es.reverse()
        elif o == "shuffle":
            rng.shuffle(es)
        if n and rng.random() < 0.5:
            es[-1] = es[-1] + rng.choice([3, 5, 50])
    else:
        es = [Fraction(rng.randint(-64, 64), 16) for _ in range(n)]
    p = rng.choice([0, 0, 0, 0.1, 0.3, 0.6, 1.0])
    ens = [None if rng.random() < p else float(e) for e in es]
    return kind, ens


E_TOLS = [0.0, 1 / 32, 1 / 16, 3 / 32, 1 / 8, 5 / 32, 0.5, 1 + 1 / 32, 4.0, -0.5]
N_SIGMAS = [5, 5, 5.0, 3, 2, 2.0, 1.5, 1, 1.0, 0.5, 0.25, 0, -1, 100]


def bucket(n):
    return "0" if n == 0 else "1" if n == 1 else "2-3" if n <= 3 else "4-8" if n <= 8 else "9-16" if n <= 16 else "17-40"


RMSD_TEMPLATES = [("C", "C", "O", "N"), ("C", "N", "O", "H"), ("C", "C", "O", "N", "H"), ("C", "O"), ("C", "C", "H", "H"), ("C", "H"), ("H", "H")]


def rot_matrix(axis, theta):
    a = np.asarray(axis, dtype=float)
    a = a / np.linalg.norm(a)
    K = np.array([[0, -a[2], a[1]], [a[2], 0, -a[0]], [-a[1], a[0], 0]])
    return np.eye(3) + math.sin(theta) * K + (1 - math.cos(theta)) * (K @ K)


def gen_geoms(rng, n, labels):
    """n geometries: a few base shapes, perturbed (near/below/above typical tolerances), rigidly moved."""
    k = len(labels)
    shapes = [np.array([[rng.randint(-16, 16) / 8 for _ in range(3)] for _ in range(k)]) + np.arange(k)[:, None] * 0.9
              for _ in range(rng.randint(1, 3))]
    out = []
    for _ in range(n):
        g = shapes[rng.randrange(len(shapes))].copy()
        if rng.random() < 0.7:
            a = rng.randrange(k)
            g[a, rng.randrange(3)] += rng.choice([0.05, 0.1, 0.2, 0.4, 0.5, 0.6, 0.8, 1.0, 1.5, 3.0])
        if rng.random() < 0.5:
            R = rot_matrix([rng.uniform(-1, 1) for _ in range(3)] + np.array([0.01, 0.02, 0.03]), rng.uniform(-3, 3))
            g = (R @ g.T).T + np.array([rng.uniform(-2, 2) for _ in range(3)])
        out.append([tuple(float(x) for x in row) for row in g])
    return out


def rmsd_matrix(cs):
    from autode.geom import calc_heavy_atom_rmsd
    atoms = [c.atoms for c in cs]
    return [[float(calc_heavy_atom_rmsd(a, b)) for b in atoms] for a in atoms]


# ------------------------------------------------------------------------------------------------
# INDEPENDENT oracles (written from the property's words, not from the implementation): the RMSD of the heavy
# atoms after optimal alignment, and "same bond graph as the parent".  The implementation's own values are what
# the model is fed; these cross-check them, so a change of geom.calc_rmsd / get_rot_mat_kabsch /
# calc_heavy_atom_rmsd / make_graph / is_isomorphic is reported with the geometry on which it shows.
def indep_heavy_rmsd(labels, g1, g2):
    P = np.array([p for l, p in zip(labels, g1) if l != "H"], dtype=float)
    Q = np.array([p for l, p in zip(labels, g2) if l != "H"], dtype=float)
    if len(P) == 0:
        return 0.0
    P = P - P.mean(axis=0)
    Q = Q - Q.mean(axis=0)
    # min over proper rotations R of ||P R - Q||^2 = |P|^2 + |Q|^2 - 2 (s1 + s2 + sign * s3)
    U, S, Vt = np.linalg.svd(P.T @ Q)
    sign = 1.0 if np.linalg.det(U @ Vt) > 0 else -1.0
    msd = (np.sum(P * P) + np.sum(Q * Q) - 2.0 * (S[0] + S[1] + sign * S[2])) / P.size
    return float(np.sqrt(max(msd, 0.0)))


def check_rmsd_oracle(fnd, labels, geoms, D, rep):
    n = len(geoms)
    for i in range(n):
        for j in range(n):
            want = indep_heavy_rmsd(labels, geoms[i], geoms[j])
            if abs(D[i][j] - want) > 1e-6:
                fnd.add("geom.calc_heavy_atom_rmsd|differs-from-independent-kabsch", n,
                        f"calc_heavy_atom_rmsd of conformers {i} and {j} (atoms {''.join(labels)}) is {D[i][j]!r}; the heavy-atom RMSD "
                        f"after optimal alignment, computed independently, is {want!r}",
                        dict(rep, kind="rmsd-oracle", pair=[i, j], geoms=[geoms[i], geoms[j]], labels=list(labels)))
                return False
    return True


COV_RADIUS = {"H": 0.31, "C": 0.76, "N": 0.71, "O": 0.66, "F": 0.57}


def indep_graph(labels, geom):
    """Bonds of a small test geometry by an independent distance rule (covalent radii x 1.25)."""
    import networkx as nx
    g = nx.Graph()
    for i, l in enumerate(labels):
        g.add_node(i, label=l)
    X = np.array(geom, dtype=float)
    for i in range(len(labels)):
        for j in range(i + 1, len(labels)):
            if np.linalg.norm(X[i] - X[j]) < 1.25 * (COV_RADIUS[labels[i]] + COV_RADIUS[labels[j]]):
                g.add_edge(i, j)
    return g


def indep_iso(labels, geom, parent_geom):
    import networkx as nx
    return bool(nx.is_isomorphic(indep_graph(labels, geom), indep_graph(labels, parent_geom),
                                 node_match=lambda a, b: a["label"] == b["label"]))


def check_iso_oracle(fnd, labels, geom, parent_geom, impl_bit, rep):
    want = indep_iso(labels, geom, parent_geom)
    if want != impl_bit:
        fnd.add("mol_graphs.make_graph+is_isomorphic|differs-from-independent-perception", len(labels),
                f"make_graph + is_isomorphic says the geometry {geom} of {''.join(labels)} {'has' if impl_bit else 'has not'} the "
                f"parent's bond graph; an independent covalent-radius perception says the opposite",
                dict(rep, kind="graph-oracle", geom=geom, labels=list(labels)))
    return want == impl_bit


R_TOLS = [0.0, 0.05, 0.1, 0.2, 0.3, None, 0.5, 1.0, 1.0, -1.0]


def rmsd_margin_ok(D, tol):
    n = len(D)
    if tol <= 0:            # an RMSD is never below a non-positive tolerance: no decision is close
        return True
    return all(abs(D[i][j] - tol) > 1e-9 for i in range(n) for j in range(n) if i != j)


# ------------------------------------------------------------------------------------------------
class Cases:
    def __init__(self, ctx):
        self.ctx = ctx
        self.terms, self.descr = [], []

    def add(self, stream, term, descr, key, nontrivial=True):
        self.terms.append(term)
        descr = dict(descr)
        descr["stream"] = stream
        self.descr.append(descr)
        self.ctx.count(stream, key, nontrivial, sample=descr)


def witnesses():
    """(name, energies, e_tol, n_sigma): the `_refuted` witnesses of Props.v, and inputs on which the code violated the
    property before the `fix:` commits on prune_on_energy (kept as regression cases)."""
    return [
        ("Props.energy_prune_nonempty_nsigma_lt1_refuted", [0.0, 1.0], 0.01, 0.5),
        ("Props.energy_prune_idempotent_refuted", [0.0, 0.01, 0.02, 0.03, 0.04, 3.0, 10.0], 0.001, 2.0),
        # the boundary of Props.energy_prune_nonempty: two distinct energies are EXACTLY one sigma from the mean; with
        # n_sigma = 1 the strict `>` keeps both (`>=` would empty the set).  Float arithmetic is exact on these inputs.
        ("boundary n_sigma = 1, two energies", [0.0, 2.0], 0.5, 1),
        ("boundary n_sigma = 1.0, two energies and a missing one", [0.0, None, 2.0], 0.5, 1.0),
        ("boundary n_sigma = 1, two pairs", [1.0, 1.0, 3.0, 3.0], 0.25, 1),
        ("boundary n_sigma = 2, 1:3 split (|e-mu| = sigma*sqrt(3) for the single one: no tie) ", [0.0, 0.0, 0.0, 4.0], 0.25, 2),
        ("regression: crash of the stale index refresh (d7bdc37)", [0.0, 0.0, 10.0, None], 0.5, 1.0),
        ("identically named conformers: the duplicate at idx is the one that must go", [0.0, 0.01, 0.01, 0.02], 0.001, 5),
        ("identically named conformers with missing energies", [None, -1.0, -0.5, None, -0.5, -0.2], 0.001, 5),
        ("regression: emptied for n_sigma>=1 (non-outlier deleted for being near a later-deleted outlier)", [0.0, 0.9, 1.8], 1.0, 1.0),
        ("regression: lowest lost through a chain of near conformers", [1.8, 0.9, 0.0, 5.0], 1.0, 5.0),
        ("regression: lowest lost with the DEFAULT thresholds (1 kJ/mol, 5 sigma), energies in Ha", [0.0006, 0.0003, 0.0, 0.01], "default", 5),
    ]


def default_e_tol():
    from autode.conformers import Conformers
    d = inspect.signature(Conformers.prune_on_energy).parameters["e_tol"].default
    return float(d.to("Ha")) if hasattr(d, "to") else float(d)


def stream_energy(ctx, cases, fnd, full):
    rng = ctx.rng
    nmax = 40 if full else 12
    ncase = 2500 if full else 420
    skipped = 0
    # replay the refuted witnesses on the implementation first
    for name, ens, et, ns in witnesses():
        set_name_mode("same")
        if et == "default":
            et_f = default_e_tol()
            got = run_method(build_confs(ens), lambda cs: cs.prune_on_energy(n_sigma=ns))
        else:
            et_f = et
            got = impl_energy(ens, et, ns)
        classify_energy(ens, et_f, ns, got, fnd, name)
        cases.add("energy-prune", f"check_energy {coq_ens(ens)} {qc(et_f)} {qc(ns)} {coq_expect(got)}",
                  {"kind": "energy", "energies": ens, "e_tol": et_f, "n_sigma": ns, "impl": got, "witness": name},
                  ("w", name), True)
    # e_tol=None is a documented value of the argument (docstring: Energy | float | None); since fix d348d0e it means 0.0
    for ens0, ns0 in (([0.0, 0.5, 1.0], 5), ([0.0, 0.0, None, 0.25, 9.0], 1.5), ([1.0], 5), ([], 5)):
        set_name_mode("same")
        got = run_method(build_confs(ens0), lambda cs: cs.prune_on_energy(e_tol=None, n_sigma=ns0))
        if isinstance(got, str):
            fnd.add(K_ETOL_NONE, len(ens0), f"prune_on_energy(e_tol=None, n_sigma={ns0}) on energies {ens0} raised {got}: None is documented as "
                    f"an accepted value of e_tol (repaired by fix d348d0e: None -> 0.0)", {"kind": "energy-etol-none", "energies": ens0})
        classify_energy(ens0, 0.0, ns0, got, fnd, "e_tol=None") if isinstance(got, list) else None
        cases.add("energy-prune", f"check_energy {coq_ens(ens0)} (e_tol_used None) {qc(ns0)} {coq_expect(got)}",
                  {"kind": "energy", "energies": ens0, "e_tol": None, "n_sigma": ns0, "impl": got}, ("etol-none", tuple(ens0), ns0), True)
    from autode.values import Energy
    for k in range(ncase):
        kind, ens = gen_energies(rng, 40 if (not full and k % 25 == 7) else nmax)
        e_tol, n_sigma = rng.choice(E_TOLS), rng.choice(N_SIGMAS)
        ctx.hist("energy-prune", "names=" + set_name_mode(rng.choice(NAME_MODES)))
        if not energy_margin_ok(ens, n_sigma):
            skipped += 1
            continue
        got = impl_energy(ens, e_tol, n_sigma)
        classify_energy(ens, e_tol, n_sigma, got, fnd, "energy-prune")
        if e_tol > 0 and rng.random() < 0.15:
            # the same threshold handed over as an Energy in another unit must prune identically
            unit = rng.choice(["kJ mol-1", "kcal mol-1", "eV", "Ha"])
            et_obj = Energy(e_tol, "Ha").to(unit)
            eh = float(Energy(float(et_obj), unit).to("Ha"))
            F = [frac(e) for e in ens if e is not None]
            if all(abs(abs(a - b) - frac(eh)) > Fraction(1, 10**9) for a, b in itertools.combinations(F, 2)):
                got_u = run_method(build_confs(ens), lambda cs: cs.prune_on_energy(e_tol=Energy(float(et_obj), unit), n_sigma=n_sigma))
                ref_u = impl_energy(ens, eh, n_sigma)
                ctx.hist("energy-prune", f"e_tol-as-Energy[{unit}]")
                if got_u != ref_u:
                    fnd.add("Conformers.prune_on_energy|Energy-unit-changes-result", len(ens), f"prune_on_energy(e_tol=Energy({float(et_obj)!r}, "
                            f"{unit!r}), n_sigma={n_sigma}) on {ens} retains {got_u}; the same threshold as a float in Ha ({eh!r}) retains {ref_u}",
                            {"kind": "energy-unit", "energies": ens, "e_tol_value": float(et_obj), "unit": unit, "n_sigma": n_sigma})
        res_class = ("raises" if not isinstance(got, list) else "empty" if (ens and not got) else
                     "unchanged" if len(got) == len(ens) else "deleted")
        for h in (f"n={bucket(len(ens))}", f"kind={kind}", f"result={res_class}",
                  f"none={'all' if ens and all(e is None for e in ens) else 'some' if any(e is None for e in ens) else 'no'}",
                  f"n_sigma={'<0' if n_sigma < 0 else '<1' if n_sigma < 1 else '>=1'}"):
            ctx.hist("energy-prune", h)
        cases.add("energy-prune", f"check_energy {coq_ens(ens)} {qc(e_tol)} {qc(n_sigma)} {coq_expect(got)}",
                  {"kind": "energy", "energies": ens, "e_tol": e_tol, "n_sigma": n_sigma, "impl": got, "names": NAME_MODE},
                  (tuple(ens), e_tol, n_sigma, NAME_MODE), nontrivial=(res_class != "unchanged"))
    ctx.cov["streams"]["energy-prune"]["margin_skipped"] = skipped


def rmsd_tol_value(tol):
    from autode.config import Config
    return float(Config.rmsd_threshold) if tol is None else tol


def classify_rmsd(n, D, tol, got, fnd, rep, check_empty=True):
    tolv = rmsd_tol_value(tol)
    if not isinstance(got, list):
        fnd.add(f"Conformers.prune_on_rmsd|raises-{got.split(':')[-1]}", n, f"prune_on_rmsd(rmsd_tol={tol}) raised {got}", rep)
        return
    if check_empty and n > 0 and not got:
        fnd.add("Conformers.prune_on_rmsd|empties", n, f"prune_on_rmsd(rmsd_tol={tol}) emptied a set of {n} conformers", rep)
    for i, j in itertools.permutations(got, 2):
        if D[i][j] < tolv:
            fnd.add("Conformers.prune_on_rmsd|retained-pair-within-tol", n,
                    f"prune_on_rmsd(rmsd_tol={tol}) retains conformers {i} and {j} with heavy-atom RMSD {D[i][j]!r} < {tolv}", rep)
            break


K_TOL_RAISES = "Conformers.prune_on_rmsd|non-float-tolerance-raises"
K_TOL_UNIT = "Conformers.prune_on_rmsd|Distance-unit-ignored"
PATCH_TOL = "(repaired by fix 5b3a1b1: any non-Distance -> Distance(float(x), 'Å'), then float(rmsd_tol.to('Å')))"


def tol_argument(rng, tol):
    """-> (python argument, kind, Coq tol_arg, threshold in Angstrom the caller means, number the code uses or None)"""
    from autode.values import Distance
    if tol is None:
        return None, "None", "TNone", rmsd_tol_value(None), rmsd_tol_value(None)
    kinds = ["float", "float", "float", "Distance-ang", "Distance-nm", "Distance-pm", "float32"]
    if float(tol) == int(tol):
        kinds += ["int", "int", "int"]
    kind = rng.choice(kinds)
    if kind == "float":
        return float(tol), kind, f"(TFloat {qc(tol)})", tol, tol
    if kind == "int":
        return int(tol), kind, f"(TOther {qc(int(tol))})", tol, tol
    if kind == "float32":
        x = np.float32(tol)
        return x, kind, f"(TOther {qc(float(x))})", float(x), float(x)
    unit, f = {"Distance-ang": ("ang", 1.0), "Distance-nm": ("nm", 10.0), "Distance-pm": ("pm", 0.01)}[kind]
    x = tol / f                       # the same length, expressed in `unit`
    return Distance(x, unit), kind, f"(TDistance {qc(x)} {qc(Fraction(10) if unit == 'nm' else Fraction(1, 100) if unit == 'pm' else 1)})", x * f, x * f


def stream_rmsd(ctx, cases, fnd, full):
    rng = ctx.rng
    ncase = 500 if full else 120
    skipped = 0
    for k in range(ncase):
        nmax = (40 if k % 12 == 0 else 16) if full else (rng.randint(21, 28) if k in (5, 60) else 10)
        n = nmax if (not full and k in (5, 60)) else min(rng.choice([0, 1, 2, 2, 3, 4, 5, 6, 8, nmax, rng.randint(0, nmax)]), nmax)
        labels = rng.choice(RMSD_TEMPLATES[:3] * 3 + RMSD_TEMPLATES[3:5] * 2 + RMSD_TEMPLATES[5:])
        geoms = gen_geoms(rng, n, labels)
        if k in (1, 2):
            # a LARGE set of mutually different conformers with two far-apart duplicates: nothing else is deleted, so
            # any shortcut that compares only neighbouring / a bounded number of conformers shows
            n, labels = (30, ("C", "C", "O", "N")) if k == 1 else (40, ("C", "N", "O", "H"))
            geoms = [[tuple(rng.randint(-24, 24) / 8 + 1.1 * a for _ in range(3)) for a in range(len(labels))] for _ in range(n)]
            geoms[n - 4] = geoms[2]
            R = rot_matrix([0.3, 1.0, 0.2], 1.1)
            geoms[n - 1] = [tuple(float(x) for x in row) for row in (R @ np.array(geoms[9]).T).T + np.array([1.0, 0.0, -2.0])]
        if n >= 2 and rng.random() < 0.5:          # exact duplicates at arbitrary positions
            geoms[rng.randrange(n)] = geoms[rng.randrange(n)]
        if n >= 2 and rng.random() < 0.5:          # a rigidly rotated + translated copy (RMSD 0 after alignment)
            i, j = rng.sample(range(n), 2)
            R = rot_matrix(np.array([rng.uniform(-1, 1) for _ in range(3)]) + np.array([0.01, 0.02, 0.03]), rng.uniform(0.5, 2.6))
            geoms[j] = [tuple(float(x) for x in row) for row in (R @ np.array(geoms[i]).T).T + np.array([0.5, -1.0, 2.0])]
        tol = 0.05 if k in (1, 2) else rng.choice(R_TOLS)
        arg, kind, coq_arg, meant, used = tol_argument(rng, tol)
        if k in (1, 2):
            arg, kind, coq_arg, meant, used = 0.05, "float", f"(TFloat {qc(0.05)})", 0.05, 0.05
        set_name_mode(rng.choice(NAME_MODES))
        cs = build_confs([None] * n, geoms, labels)
        D = rmsd_matrix(cs)
        rep = {"kind": "rmsd", "labels": list(labels), "geoms": geoms, "rmsd_tol": tol, "tol_argument": kind,
               "tol_argument_repr": repr(arg), "names": NAME_MODE}
        check_rmsd_oracle(fnd, labels, geoms, D, rep)
        if not rmsd_margin_ok(D, meant) or (used is not None and not rmsd_margin_ok(D, used)):
            skipped += 1
            continue
        got = run_method(cs, lambda c: c.prune_on_rmsd(rmsd_tol=arg))
        rep["retained"] = got
        # what the property asks of this call: the result for the SAME threshold given as a plain float in Angstrom
        ref = run_method(build_confs([None] * n, geoms, labels), lambda c: c.prune_on_rmsd(rmsd_tol=float(meant)))
        if kind in ("int", "float32") and isinstance(got, str) and n >= 2:
            fnd.add(K_TOL_RAISES, n, f"prune_on_rmsd(rmsd_tol={arg!r}) on {n} conformers raised {got} (a tolerance that is a number but "
                    f"not a python float has no .to); the same tolerance as a float retains {ref}. {PATCH_TOL}", rep)
        elif kind.startswith("Distance") and got != ref:
            fnd.add(K_TOL_UNIT, n, f"prune_on_rmsd(rmsd_tol={arg!r}) retains {got}, but the same length as a float in Angstrom "
                    f"({meant}) retains {ref}: a Distance is re-labelled as Angstrom whatever its unit. {PATCH_TOL}", dict(rep, reference=ref))
        else:
            classify_rmsd(n, D, meant, got, fnd, rep)
            if got != ref:
                fnd.add("Conformers.prune_on_rmsd|tolerance-argument-changes-result", n, f"prune_on_rmsd(rmsd_tol={arg!r}) retains {got}, the "
                        f"same threshold as a float retains {ref}", dict(rep, reference=ref))
        if isinstance(got, list):
            cs2 = build_confs([None] * len(got), [geoms[i] for i in got], labels)
            again = run_method(cs2, lambda c: c.prune_on_rmsd(rmsd_tol=arg))
            if again != list(range(len(got))):
                fnd.add("Conformers.prune_on_rmsd|not-idempotent", n, f"prune_on_rmsd(rmsd_tol={arg!r}): first call retains {got}, "
                        f"a second call on the result retains positions {again}", rep)
        res_class = "raises" if not isinstance(got, list) else "unchanged" if len(got) == n else "deleted"
        for h in (f"n={bucket(n)}", f"atoms={''.join(labels)}", f"result={res_class}", f"tol-arg={kind}"):
            ctx.hist("rmsd-prune", h)
        cases.add("rmsd-prune", f"check_rmsd_arg {coq_nat(n)} {qc_mat(D)} {qc(rmsd_tol_value(None))} {coq_arg} {coq_expect(got)}", rep,
                  (tuple(map(tuple, geoms)), tol, kind), nontrivial=(res_class != "unchanged"))
    ctx.cov["streams"]["rmsd-prune"]["margin_skipped"] = skipped


# water-like parent for prune_diff_graph; variants keep or break the O-H bonds
def water_geom(rng, intact=False):
    v = rng.choice(["same", "jiggle"] if intact else ["same", "same", "jiggle", "h-off", "both-off", "h-far"])
    O, H1, H2 = (0.0, 0.0, 0.0), (0.96, 0.0, 0.0), (-0.24, 0.93, 0.0)
    if v == "jiggle":
        H1 = (0.96 + rng.choice([-0.05, 0.05]), 0.02, 0.0)
    elif v == "h-off":
        H2 = (-0.9, 3.2, 0.3)
    elif v == "both-off":
        H1, H2 = (3.5, 0.1, 0.0), (-1.0, 3.4, 0.0)
    elif v == "h-far":
        H1 = (0.0, 0.0, 2.6)
    return v, [O, H1, H2]


def stream_listops(ctx, cases, fnd, full):
    rng = ctx.rng
    from autode.species.molecule import Molecule
    from autode.atoms import Atom
    from autode.mol_graphs import make_graph, is_isomorphic
    nmax = 40 if full else 12
    for _ in range(900 if full else 160):
        kind, ens = gen_energies(rng, nmax)
        set_name_mode(rng.choice(NAME_MODES))
        # remove_no_energy
        got = run_method(build_confs(ens), lambda cs: cs.remove_no_energy())
        want = [i for i, e in enumerate(ens) if e is not None]
        if not isinstance(got, list):
            if not (got == "noconf" and ens and not want):
                fnd.add(f"Conformers.remove_no_energy|{got}", len(ens), f"remove_no_energy raised {got} on {ens}",
                        {"kind": "remove_no_energy", "energies": ens})
        elif got != want:
            fnd.add("Conformers.remove_no_energy|wrong-set", len(ens), f"remove_no_energy on {ens} retained {got}, conformers with an "
                    f"energy are {want}", {"kind": "remove_no_energy", "energies": ens})
        cases.add("list-ops", f"check_remove_no_energy {coq_ens(ens)} {coq_expect(got)}",
                  {"kind": "remove_no_energy", "energies": ens, "impl": got}, ("rne", tuple(ens)),
                  nontrivial=(got != list(range(len(ens)))))
        # lowest_energy
        cs = build_confs(ens)
        try:
            low = cs.lowest_energy
            low = None if low is None else low._vtag
        except Exception as e:  # noqa
            low = "crash:" + type(e).__name__
        have = [e for e in ens if e is not None]
        if isinstance(low, str):
            fnd.add(f"Conformers.lowest_energy|{low}", len(ens), f"lowest_energy raised {low} on {ens}", {"kind": "lowest", "energies": ens})
        elif (low is None) != (not have) or (low is not None and (ens[low] is None or ens[low] != min(have))):
            fnd.add("Conformers.lowest_energy|not-the-minimum", len(ens), f"lowest_energy on {ens} selected index {low}; the minimum "
                    f"energy is {min(have) if have else None}", {"kind": "lowest", "energies": ens})
        if not isinstance(low, str):
            cases.add("list-ops", f"check_lowest {coq_ens(ens)} {'None' if low is None else '(Some ' + coq_nat(low) + ')'}",
                      {"kind": "lowest", "energies": ens, "impl": low}, ("low", tuple(ens)), nontrivial=len(have) > 1)
    parent = Molecule(name="w", atoms=[Atom("O"), Atom("H", x=0.96), Atom("H", x=-0.24, y=0.93)])
    iso_cache = {}

    def iso_bit(geom):
        """oracle: is_isomorphic(make_graph(conformer), parent graph), cached per geometry"""
        key = tuple(map(tuple, geom))
        if key not in iso_cache:
            c = build_confs([None], [geom], ("O", "H", "H"))[0]
            make_graph(c)
            iso_cache[key] = bool(is_isomorphic(c.graph, parent.graph, ignore_active_bonds=True))
            check_iso_oracle(fnd, ("O", "H", "H"), [tuple(p) for p in geom], [(0.0, 0.0, 0.0), (0.96, 0.0, 0.0), (-0.24, 0.93, 0.0)],
                             iso_cache[key], {"parent": "water"})
        return iso_cache[key]

    for _ in range(150 if full else 30):
        n = rng.randint(0, 8 if full else 6)
        set_name_mode(rng.choice(NAME_MODES))
        vs, geoms = zip(*[water_geom(rng) for _ in range(n)]) if n else ((), ())
        cs = build_confs([None] * n, list(geoms), ("O", "H", "H"))
        isos = [iso_bit(g) for g in geoms]
        got = run_method(cs, lambda c: c.prune_diff_graph(parent.graph))
        want = [i for i in range(n) if isos[i]]
        rep = {"kind": "diff_graph", "variants": list(vs), "isomorphic": isos, "retained": got}
        if got != want:
            fnd.add("Conformers.prune_diff_graph|wrong-set", n, f"prune_diff_graph retained {got}; conformers isomorphic to the parent "
                    f"are {want} (variants {list(vs)})", rep)
        for v in vs:
            ctx.hist("list-ops", f"graph-variant={v}")
        cases.add("list-ops", f"check_diff_graph {coq_list([coq_bool(b) for b in isos])} {coq_expect(got)}", rep,
                  ("dg", tuple(vs)), nontrivial=(not all(isos)))
    stream_graph_steps(ctx, cases, fnd, full, parent, iso_bit)


def stream_graph_steps(ctx, cases, fnd, full, parent, iso_bit):
    """prune_diff_graph must judge the CURRENT geometry: graphs are perceived/cached first (graph access, bond
    matrix, or a first prune), then some geometries change (coordinates / atoms setter) so that bonds break or
    form, then the set is pruned again.  Oracle: fresh perception of the final geometry on a new object."""
    rng = ctx.rng
    from autode.atoms import Atom, Atoms
    labels = ("O", "H", "H")
    for _ in range(120 if full else 30):
        n = rng.randint(1, 6)
        set_name_mode(rng.choice(NAME_MODES))
        start = [water_geom(rng, intact=rng.random() < 0.8) for _ in range(n)]
        geoms = [g for _, g in start]
        cs = build_confs([None] * n, geoms, labels)
        how = rng.choice(["graph-access", "bond-matrix", "first-prune", "first-prune"])
        rep = {"kind": "diff_graph_steps", "start": [v for v, _ in start], "cached_by": how, "names": NAME_MODE}
        try:
            if how == "graph-access":
                for c in cs:
                    assert c.graph is not None
            elif how == "bond-matrix":
                for c in cs:
                    c.bond_matrix  # noqa
            else:
                first = run_method(cs, lambda c: c.prune_diff_graph(parent.graph))
                want1 = [i for i in range(n) if iso_bit(geoms[i])]
                if first != want1:
                    fnd.add("Conformers.prune_diff_graph|wrong-set", n, f"first prune_diff_graph retained {first}; conformers isomorphic "
                            f"to the parent are {want1} (variants {rep['start']})", rep)
            final, changes = list(geoms), []
            for c in list(cs):
                i = c._vtag
                if rng.random() < 0.6:
                    v, g = water_geom(rng)
                    setter = rng.choice(["coordinates", "atoms"])
                    if setter == "coordinates":
                        c.coordinates = np.array(g, dtype=float)
                    else:
                        c.atoms = Atoms([Atom(l, x=p[0], y=p[1], z=p[2]) for l, p in zip(labels, g)])
                    final[i] = g
                    changes.append([i, v, setter])
            present = [c._vtag for c in cs]
            got = run_method(cs, lambda c: c.prune_diff_graph(parent.graph))
        except Exception as e:  # noqa
            fnd.add(f"Conformers.prune_diff_graph|raises-{type(e).__name__}", n, f"graph caching / geometry change / prune raised "
                    f"{type(e).__name__}: {e}", rep)
            continue
        isos = [iso_bit(final[i]) for i in present]
        want = [i for i, b in zip(present, isos) if b]
        rep.update(changes=changes, present_before_second_prune=present, isomorphic_now=isos, retained=got)
        if got != want:
            fnd.add("Conformers.prune_diff_graph|stale-graph-after-geometry-change", n,
                    f"after the graphs were perceived ({how}) and geometries changed ({changes}), prune_diff_graph retained {got}; "
                    f"a fresh perception of the current geometries says only {want} have the parent's graph", rep)
        ctx.hist("list-ops", f"graph-steps={how}")
        # the model sees the conformers present before the second prune, renumbered 0..k-1
        pos = {t: k for k, t in enumerate(present)}
        exp = coq_expect([pos[t] for t in got] if isinstance(got, list) and all(t in pos for t in got) else "crash:renumber")
        cases.add("list-ops", f"check_diff_graph {coq_list([coq_bool(b) for b in isos])} {exp}", rep,
                  ("dgs", tuple(rep["start"]), how, tuple(map(tuple, changes))), nontrivial=bool(changes))


def stream_shared(ctx, cases, fnd, full):
    """Conformer sets in which the SAME object sits at several positions (a list may hold an object twice; duplicates
    are in the property's quantifier), pruned as they are or after Conformers.copy().  Positions are what counts:
    an object held twice is a pair 0.000 A / 0 Ha apart, one of which must go."""
    rng = ctx.rng
    from autode.conformers import Conformers
    for _ in range(150 if full else 36):
        labels = rng.choice(RMSD_TEMPLATES[:3])
        k = rng.randint(1, 4)
        geoms = gen_geoms(rng, k, labels)
        ens = [None if rng.random() < 0.15 else rng.choice([-8, -2, -1, 0, 1, 2, 8, 40]) / 16 for _ in range(k)]
        n = rng.randint(2, 8)
        ids = [rng.randrange(k) for _ in range(n)]
        ids[rng.randrange(1, n)] = ids[0]                                  # at least one repeat
        how, call = rng.choice(["as-is", "copy", "copy"]), rng.choice(["prune_on_rmsd", "prune_on_rmsd", "prune_on_energy", "prune"])
        tol, e_tol, n_sigma, rm = rng.choice([0.05, 0.1, 0.3, 0.5]), rng.choice([1 / 32, 1 / 16, 3 / 32]), rng.choice([5, 3, 2.0]), rng.random() < 0.5
        set_name_mode(rng.choice(NAME_MODES))
        base = build_confs(ens, geoms, labels)
        D = rmsd_matrix(base)
        ens_pos = [ens[i] for i in ids]
        if not rmsd_margin_ok(D, tol) or not energy_margin_ok(ens_pos, n_sigma):
            continue
        cs = Conformers([base[i] for i in ids])
        try:
            if how == "copy":
                cs = cs.copy()
            fn = {"prune_on_rmsd": lambda c: c.prune_on_rmsd(rmsd_tol=tol),
                  "prune_on_energy": lambda c: c.prune_on_energy(e_tol=e_tol, n_sigma=n_sigma),
                  "prune": lambda c: c.prune(e_tol=e_tol, rmsd_tol=tol, n_sigma=n_sigma, remove_no_energy=rm)}[call]
            got = run_method(cs, fn)          # the OBJECTS left, in order (an object may appear more than once)
        except Exception as e:  # noqa
            got = "crash:" + type(e).__name__
        rep = {"kind": "shared", "labels": list(labels), "geoms": geoms, "energies": ens, "object_at_position": ids, "copied_first": how == "copy",
               "call": call, "rmsd_tol": tol, "e_tol": e_tol, "n_sigma": n_sigma, "remove_no_energy": rm, "objects_left": got, "names": NAME_MODE}
        what = (f"a set holding objects {ids} (object i has energy {ens} and geometry i){', copied with Conformers.copy(),' if how == 'copy' else ''} "
                f"then {call}(rmsd_tol={tol}, e_tol={e_tol}, n_sigma={n_sigma}) leaves objects {got}")
        if isinstance(got, str) and not (got == "noconf" and call == "prune" and rm and all(e is None for e in ens_pos)):
            fnd.add(f"Conformers.{call}|repeated-object-raises", n, what, rep)
        if isinstance(got, list):
            if n and not got:
                fnd.add(f"Conformers.{call}|repeated-object-empties", n, what, rep)
            pairs = list(itertools.combinations(range(len(got)), 2))
            if call in ("prune_on_rmsd", "prune") and any(D[got[a]][got[b]] < tol or D[got[b]][got[a]] < tol for a, b in pairs):
                fnd.add("Conformers.prune_on_rmsd|repeated-object-pair-within-tol", n, what + ": two of the positions left are closer than "
                        "rmsd_tol (an object held twice is 0.000 A from itself)", rep)
            if call in ("prune_on_energy", "prune") and any(ens[got[a]] is not None and ens[got[b]] is not None
                                                             and abs(frac(ens[got[a]]) - frac(ens[got[b]])) < frac(e_tol) for a, b in pairs):
                fnd.add("Conformers.prune_on_energy|repeated-object-pair-within-e_tol", n, what + ": two of the positions left are closer "
                        "than e_tol", rep)
        ctx.hist("shared", f"{call} {how}")
        term = {"prune_on_rmsd": f"check_rmsd_ids {coq_nats(ids)} {qc_mat(D)} {qc(tol)} {coq_expect(got)}",
                "prune_on_energy": f"check_energy_ids {coq_nats(ids)} {coq_ens(ens)} {qc(e_tol)} {qc(n_sigma)} {coq_expect(got)}",
                "prune": f"check_prune_ids {coq_nats(ids)} {coq_ens(ens)} {qc_mat(D)} {qc(e_tol)} {qc(n_sigma)} {qc(tol)} {coq_bool(rm)} {coq_expect(got)}"}[call]
        cases.add("shared", term, rep, (tuple(ids), tuple(ens), tuple(map(tuple, geoms)), how, call, tol, e_tol, n_sigma, rm), True)


def stream_prune(ctx, cases, fnd, full):
    """Conformers.prune = remove_no_energy?; prune_on_energy; prune_on_rmsd."""
    rng = ctx.rng
    from autode.config import Config
    from autode.values import Distance
    saved_threshold = Config.rmsd_threshold
    skipped = 0
    for it in range(400 if full else 70):
        nmax = 16 if full else 8
        Config.rmsd_threshold = saved_threshold
        kind, ens = gen_energies(rng, nmax)
        n = len(ens)
        labels = rng.choice(RMSD_TEMPLATES[:3])
        geoms = gen_geoms(rng, n, labels)
        e_tol, n_sigma, tol, rm = rng.choice(E_TOLS), rng.choice(N_SIGMAS + [5, 5, 5]), rng.choice(R_TOLS + [None, None, None]), rng.random() < 0.5
        if it == 0:
            # directed: the witness of Props.energy_prune_idempotent_refuted with mutually different geometries - the
            # composite prune() is not idempotent either (known finding, reported every run)
            ens, labels, e_tol, n_sigma, tol, rm = [0.0, 0.01, 0.02, 0.03, 0.04, 3.0, 10.0], ("C", "C", "O", "N"), 0.001, 2.0, 0.05, False
            n = len(ens)
            geoms = [[(1.1 * a + 0.9 * i * (a == 2), 0.7 * a * a - 0.8 * i * (a == 3), 0.5 * i * (a == 1)) for a in range(4)] for i in range(n)]
        set_name_mode(rng.choice(NAME_MODES))
        # without an explicit rmsd_tol the threshold is autode.Config.rmsd_threshold AS IT IS WHEN prune() IS CALLED
        cfg_tol = rng.choice([0.05, 0.1, 0.6, 1.0, None]) if tol is None else None
        omit = tol is None and rng.random() < 0.6          # rmsd_tol not passed at all / passed as None
        if cfg_tol is not None:
            Config.rmsd_threshold = Distance(cfg_tol, "Å")

        def call_prune(c):
            kw = {} if omit else {"rmsd_tol": tol}
            return c.prune(e_tol=e_tol, n_sigma=n_sigma, remove_no_energy=rm, **kw)
        tolv = rmsd_tol_value(tol)
        cs = build_confs(ens, geoms, labels)
        D = rmsd_matrix(cs)
        check_rmsd_oracle(fnd, labels, geoms, D, {"kind": "prune", "names": NAME_MODE})
        # the n-sigma decision is taken on the list after remove_no_energy (same energies): margin on ens
        if not energy_margin_ok(ens, n_sigma) or not rmsd_margin_ok(D, tolv):
            skipped += 1
            continue
        got = run_method(cs, call_prune)
        rep = {"kind": "prune", "energies": ens, "labels": list(labels), "geoms": geoms, "e_tol": e_tol, "n_sigma": n_sigma,
               "rmsd_tol": tol, "remove_no_energy": rm, "retained": got, "names": NAME_MODE,
               "Config.rmsd_threshold": tolv if tol is None else None, "rmsd_tol_omitted": omit}
        if tol is None:
            ref = run_method(build_confs(ens, geoms, labels),
                             lambda c: c.prune(e_tol=e_tol, rmsd_tol=float(tolv), n_sigma=n_sigma, remove_no_energy=rm))
            if got != ref:
                fnd.add("Conformers.prune|Config.rmsd_threshold-ignored", n, f"with autode.Config.rmsd_threshold = {tolv} A set at run time, "
                        f"prune({'no rmsd_tol' if omit else 'rmsd_tol=None'}) retains {got}; prune(rmsd_tol={tolv}) retains {ref}", dict(rep, reference=ref))
        if isinstance(got, list) and got and energy_margin_ok([ens[i] for i in got], n_sigma):
            # idempotence of the composite: a second call on the same (already pruned) object
            again = run_method(cs, call_prune)
            if again != got:
                rep2 = dict(rep, second_call=again)
                if isinstance(again, list) and second_pass_only_new_outliers(ens, n_sigma, got, again):
                    fnd.add(K_IDEM_PRUNE, n + (100 if frac(n_sigma) < 1 else 0), f"prune(e_tol={e_tol}, rmsd_tol={tol}, n_sigma={n_sigma}, "
                            f"remove_no_energy={rm}) is not idempotent on energies {ens}: first call retains {got}, a second call {again} "
                            f"(mean and sigma are recomputed from the survivors, so new outliers appear; same cause as {K_IDEM})", rep2)
                else:
                    fnd.add("Conformers.prune|not-idempotent-other", n, f"prune(...) on energies {ens}: first call {got}, second call {again}, "
                            f"not explained by recomputed outliers", rep2)
        if isinstance(got, str) and not (got == "noconf" and rm and ens and all(e is None for e in ens)):
            fnd.add(f"Conformers.prune|raises-{got.split(':')[-1]}", n, f"prune(...) raised {got}", rep)
        if isinstance(got, list):
            classify_rmsd(n, D, tol, got, fnd, rep, check_empty=False)   # emptying is an energy-pruning matter
            F = [None if e is None else frac(e) for e in ens]
            for i, j in itertools.combinations([i for i in got if F[i] is not None], 2):
                if abs(F[i] - F[j]) < frac(e_tol):
                    fnd.add("Conformers.prune|retained-pair-within-e_tol", n, f"prune retains {i},{j} with energies {ens[i]},{ens[j]}", rep)
                    break
        ctx.hist("prune", f"result={'raises' if isinstance(got, str) else 'deleted' if len(got) < n else 'unchanged'}")
        cases.add("prune", f"check_prune {coq_ens(ens)} {qc_mat(D)} {qc(e_tol)} {qc(n_sigma)} {qc(tolv)} {coq_bool(rm)} {coq_expect(got)}",
                  rep, (tuple(ens), tuple(map(tuple, geoms)), e_tol, n_sigma, tol, rm), nontrivial=(got != list(range(n))))
    Config.rmsd_threshold = saved_threshold
    ctx.cov["streams"].setdefault("prune", {"evaluations": 0, "distinct_nontrivial": 0})["margin_skipped"] = skipped


K_ATOMLESS = "Conformers.prune|atomless-conformer-raises"
PATCH_ATOMLESS = ("proposed patch (conformers.py): a conformer whose atoms are None (Conformer.optimise sets that on AtomsNotFound, "
                  "conformer.py:110-114) is no conformer any more - drop it before comparing geometries/graphs, e.g. at the top of "
                  "prune_on_rmsd and prune_diff_graph: `for idx in reversed(range(len(self))):\\n    if self[idx].atoms is None: del self[idx]`")


def stream_atomless(ctx, fnd, full):
    """Implementation only: a failed optimisation leaves a conformer without atoms (and, since fix 92378a7, without an
    energy).  'Does not fail for any mixture of conformers with and without energies' includes these."""
    rng = ctx.rng
    from autode.species.molecule import Molecule
    from autode.atoms import Atom
    labels = ("C", "C", "O", "N")
    parent = Molecule(name="m", atoms=[Atom(l, x=p[0], y=p[1], z=p[2]) for l, p in zip(labels, ccon_geom(0.0, False, False))])
    for _ in range(60 if full else 12):
        n = rng.randint(2, 6)
        ens = [None if rng.random() < 0.2 else rng.choice([-2, -1, 0, 1, 2, 5]) / 8 for _ in range(n)]
        geoms = [ccon_geom(rng.choice([0, 30, 60, 90, 120, 180]) * math.pi / 180, False, False) for _ in range(n)]
        lost = sorted(rng.sample(range(n), rng.randint(1, max(1, n // 2))))
        call = rng.choice(["prune", "prune-remove_no_energy", "prune_on_rmsd", "prune_diff_graph", "prune_on_energy", "lowest_energy"])
        set_name_mode(rng.choice(NAME_MODES))
        cs = build_confs(ens, geoms, labels)
        for i in lost:
            cs[i].atoms = None
        energies_now = [None if c.energy is None else float(c.energy) for c in cs]
        fn = {"prune": lambda c: c.prune(e_tol=1 / 16, rmsd_tol=0.1, n_sigma=5),
              "prune-remove_no_energy": lambda c: c.prune(e_tol=1 / 16, rmsd_tol=0.1, n_sigma=5, remove_no_energy=True),
              "prune_on_rmsd": lambda c: c.prune_on_rmsd(rmsd_tol=0.1),
              "prune_diff_graph": lambda c: c.prune_diff_graph(parent.graph),
              "prune_on_energy": lambda c: c.prune_on_energy(e_tol=1 / 16, n_sigma=5),
              "lowest_energy": lambda c: c.lowest_energy}[call]
        got = run_method(cs, fn)
        ctx.count("atomless", (tuple(ens), tuple(lost), call), True,
                  sample={"energies": ens, "atoms_set_to_None": lost, "call": call, "result": got})
        ctx.hist("atomless", f"call={call} result={'raises' if isinstance(got, str) and got != 'noconf' else 'ok'}")
        rep = {"kind": "atomless", "energies": ens, "atoms_set_to_None": lost, "energies_after": energies_now, "call": call,
               "names": NAME_MODE, "result": got}
        if isinstance(got, str) and not (got == "noconf" and call == "prune-remove_no_energy" and all(e is None for e in energies_now)):
            fnd.add(K_ATOMLESS, n, f"Conformers.{call}(...) on {n} conformers of which {lost} have atoms = None (energies now "
                    f"{energies_now}) raised {got}. {PATCH_ATOMLESS}", rep)
        elif isinstance(got, list):
            with_atoms = [i for i in got if i not in lost]
            if call in ("prune", "prune_on_rmsd", "prune-remove_no_energy") and not with_atoms and any(i not in lost for i in range(n)) \
                    and call != "prune-remove_no_energy":
                fnd.add("Conformers.prune|atomless-only-retained", n, f"Conformers.{call} retained only atom-less conformers {got}", rep)


def ccon_geom(phi, off_o, off_n):
    """N-C-C-O chain, O rotated by phi about the C-C axis; off_* detaches the atom (graph changes)."""
    N = (-0.7, 1.2, 0.0) if not off_n else (-1.9, 3.3, 0.0)
    r = 1.2 if not off_o else 3.4
    O = (1.5 + 0.7 * (r / 1.2), r * math.cos(phi), r * math.sin(phi))
    return [(0.0, 0.0, 0.0), (1.5, 0.0, 0.0), O, N]


def stream_select(ctx, cases, fnd, full):
    """Species.find_lowest_energy_conformer over {hmethod None / single points / re-optimisation} x
    {Config.hmethod_sp_conformers} x {allow_connectivity_changes}.  Conformer generation and the two parallel drivers
    Conformers.optimise / Conformers.single_point are replaced by deterministic stand-ins driven by a per-method table
    (tag -> geometry, energy), so that geometries - and with them bond graphs - can change at EITHER stage; everything
    else (prune with the default thresholds, prune_diff_graph, _set_lowest_energy_conformer, their ORDER) is the real code.
    Oracle: the selected conformer has the parent's graph (fresh perception of its FINAL geometry) unless changes are
    allowed, and is the minimum of the final energies over the finally retained set."""
    rng = ctx.rng
    from types import SimpleNamespace
    from autode.species.molecule import Molecule
    from autode.atoms import Atom
    from autode.config import Config
    from autode.conformers import Conformers
    from autode.mol_graphs import make_graph, is_isomorphic
    from autode.exceptions import NoConformers
    labels = ("C", "C", "O", "N")
    e_tol, n_sigma = default_e_tol(), inspect.signature(Conformers.prune).parameters["n_sigma"].default
    from autode.values import Distance as _Distance
    saved_threshold = Config.rmsd_threshold
    grid = [-3, -2, -1, 0, 0, 1, 2, 5, 400]

    def method(name, table):
        return SimpleNamespace(name=name, table=table, keywords=SimpleNamespace(low_sp="sp", low_opt="opt", opt="opt", sp="sp"))

    def set_energy(c, e):
        c.energies.clear()
        if e is not None:
            c.energy = float(e)

    def fake_optimise(self, method, keywords=None):
        for c in self:
            geom, e = method.table[c._vtag]
            c.coordinates = np.array(geom, dtype=float)
            set_energy(c, e)

    def fake_single_point(self, method, keywords=None):
        for c in self:
            set_energy(c, method.table[c._vtag][1])

    iso_cache = {}
    parent_geom = ccon_geom(0.0, False, False)

    def iso_bit(mol, flags):
        """oracle: fresh perception of a geometry with these detach flags (connectivity does not depend on phi)"""
        if flags not in iso_cache:
            c = build_confs([None], [ccon_geom(0.3, *flags)], labels)[0]
            make_graph(c)
            iso_cache[flags] = bool(is_isomorphic(c.graph, mol.graph, ignore_active_bonds=True))
            check_iso_oracle(fnd, labels, ccon_geom(0.3, *flags), parent_geom, iso_cache[flags], {"parent": "CCON"})
        return iso_cache[flags]

    saved = (Conformers.optimise, Conformers.single_point, Config.hmethod_sp_conformers)
    Conformers.optimise, Conformers.single_point = fake_optimise, fake_single_point
    cwd = os.getcwd()
    os.chdir(ctx.work)
    skipped = 0
    try:
        def draw():
            n = rng.choice([0] + list(range(1, (10 if full else 6) + 1)) * 3)
            stage = rng.choice([None, None, "sp", "opt", "opt", "opt"])          # hmethod None / given
            cfg_sp = (stage == "sp") if stage else (rng.random() < 0.5)             # Config.hmethod_sp_conformers
            allow = rng.random() < 0.35
            phis = [rng.choice([0, 0, 30, 60, 90, 120, 180]) * math.pi / 180 + rng.choice([0, 0, 0.05, 0.3]) for _ in range(n)]
            offs1 = [(rng.random() < 0.15, rng.random() < 0.08) for _ in range(n)]
            ens1 = [None if rng.random() < 0.15 else rng.choice(grid) / 1024 for _ in range(n)]
            if stage == "opt":      # re-optimisation: bonds may break or re-form, energies are re-ranked
                phis2 = [p + rng.choice([0, 0, 0.05]) for p in phis]
                offs2 = [((rng.random() < 0.4, rng.random() < 0.15) if rng.random() < 0.6 else f) for f in offs1]
                ens2 = [None if rng.random() < 0.1 else rng.choice(grid) / 1024 for _ in range(n)]
            elif stage == "sp":     # single points on the low-level geometries
                phis2, offs2 = phis, offs1
                ens2 = [None if rng.random() < 0.1 else rng.choice(grid) / 1024 for _ in range(n)]
            else:
                phis2, offs2, ens2 = phis, offs1, ens1
            return n, stage, cfg_sp, allow, phis, offs1, ens1, phis2, offs2, ens2

        ok, brk = (False, False), (True, False)
        ph = [0.0, math.pi / 2]
        directed = [
            # intact after the low level, one conformer breaks a bond in the high-level re-optimisation and ends up lowest
            (2, "opt", False, False, ph, [ok, ok], [-2 / 1024, 1 / 1024], ph, [ok, brk], [-2 / 1024, -3 / 1024]),
            (2, "opt", False, True, ph, [ok, ok], [-2 / 1024, 1 / 1024], ph, [ok, brk], [-2 / 1024, -3 / 1024]),
            # broken at the low level, repaired by the high-level re-optimisation: must be kept and may be selected
            (2, "opt", False, False, ph, [ok, brk], [-2 / 1024, 1 / 1024], ph, [ok, ok], [-2 / 1024, -3 / 1024]),
            # single points never change a graph; a conformer broken at the low level stays excluded
            (2, "sp", True, False, ph, [ok, brk], [-2 / 1024, 1 / 1024], ph, [ok, brk], [-2 / 1024, -3 / 1024]),
            # no high-level method
            (2, None, False, False, ph, [ok, brk], [-2 / 1024, -3 / 1024], ph, [ok, brk], [-2 / 1024, -3 / 1024]),
            # every conformer breaks at the high level: nothing suitable is left
            (2, "opt", False, False, ph, [ok, ok], [-2 / 1024, 1 / 1024], ph, [brk, brk], [-2 / 1024, -3 / 1024]),
        ]
        for k in range(len(directed) + (500 if full else 110)):
            n, stage, cfg_sp, allow, phis, offs1, ens1, phis2, offs2, ens2 = directed[k] if k < len(directed) else draw()
            geoms1 = [ccon_geom(p, *f) for p, f in zip(phis, offs1)]
            geoms2 = [ccon_geom(p, *f) for p, f in zip(phis2, offs2)]
            set_name_mode(rng.choice(NAME_MODES))
            # the RMSD threshold of the search is autode.Config.rmsd_threshold at the time of the call
            tolv = rng.choice([float(saved_threshold), float(saved_threshold), 0.1, 0.6, 1.0])
            Config.rmsd_threshold = _Distance(tolv, "Å")
            D = rmsd_matrix(build_confs([None] * n, geoms1, labels))            # prune sees the low-level geometries
            check_rmsd_oracle(fnd, labels, geoms1, D, {"kind": "select"})
            if not energy_margin_ok(ens1, n_sigma) or not rmsd_margin_ok(D, tolv):
                skipped += 1
                continue
            mol = Molecule(name="m", atoms=[Atom(l, x=p[0], y=p[1], z=p[2]) for l, p in zip(labels, parent_geom)])
            isos = [iso_bit(mol, f) for f in offs2]                              # final geometries
            precached = rng.random() < 0.5

            def generate(mol=mol, n=n, precached=precached):
                cs = build_confs([None] * n, [parent_geom] * n, labels)
                if precached:
                    for c in cs:
                        assert c.graph is not None
                mol.conformers = cs
            mol._generate_conformers = generate
            lm = method("low", {i: (geoms1[i], ens1[i]) for i in range(n)})
            hm = None if stage is None else method("high", {i: (geoms2[i], ens2[i]) for i in range(n)})
            base = {"kind": "select", "hmethod": stage, "hmethod_sp_conformers": cfg_sp, "allow": allow, "low_energies": ens1,
                    "final_energies": ens2, "phis": phis, "low_detached": offs1, "final_detached": offs2,
                    "final_isomorphic": isos, "names": NAME_MODE, "graphs_cached_at_generation": precached,
                    "Config.rmsd_threshold": tolv}
            Config.hmethod_sp_conformers = cfg_sp
            # state left by earlier work on the same object: the species may already carry an energy (from another level
            # of theory: lower than any conformer energy here) and may already have been searched once
            prior = rng.choice(["none", "none", "lower-energy", "higher-energy", "searched-before"])
            base["species_state_before"] = prior
            try:
                if prior == "lower-energy":
                    mol.energy = -25.0
                elif prior == "higher-energy":
                    mol.energy = 25.0
                elif prior == "searched-before" and n > 0:
                    shifted = method("other-level", {i: (geoms1[i], None if ens1[i] is None else ens1[i] - 3.0) for i in range(n)})
                    try:
                        mol.find_lowest_energy_conformer(lmethod=shifted, allow_connectivity_changes=False)
                    except (NoConformers, RuntimeError):
                        pass
                mol.find_lowest_energy_conformer(lmethod=lm, hmethod=hm, allow_connectivity_changes=allow)
                retained = [c._vtag for c in mol.conformers]
                low = mol.conformers.lowest_energy
                sel, exp_sel = low._vtag, f"(ESel {coq_nat(low._vtag)})"
                # the species now carries the selected conformer's energy and coordinates
                if float(mol.energy) != float(low.energy) or not np.allclose(np.asarray(mol.coordinates), np.asarray(low.coordinates), atol=1e-12):
                    fnd.add("Species.find_lowest_energy_conformer|species-not-set-to-selected", n,
                            f"after find_lowest_energy_conformer (species state before: {prior}; final energies {ens2}, retained {retained}) "
                            f"the species has energy {mol.energy!r}, not the energy {low.energy!r} / coordinates of the selected conformer "
                            f"{low._vtag} (conformers.lowest_energy)", base)
                exp = coq_expect(retained)
            except NoConformers:
                # from remove_no_energy, or from @requires_conformers when nothing is left to select from
                retained, sel, exp_sel, exp = [c._vtag for c in mol.conformers], "raised-NoConformers", "ERaised", "ENoConf"
                if retained:
                    fnd.add("Species.find_lowest_energy_conformer|NoConformers-with-conformers", n,
                            f"NoConformers raised although conformers {retained} remain", base)
            except RuntimeError:
                retained, sel, exp_sel = [c._vtag for c in mol.conformers], "no-suitable", "ENoSuitable"
                exp = coq_expect(retained)
            except Exception as e:  # noqa
                fnd.add(f"Species.find_lowest_energy_conformer|raises-{type(e).__name__}", n,
                        f"find_lowest_energy_conformer raised {type(e).__name__}: {e}", base)
                retained, sel, exp_sel, exp = "crash:" + type(e).__name__, "crash", "ENoSuitable", "ECrash"
            finally:
                Config.hmethod_sp_conformers = saved[2]
            rep = dict(base, retained=retained, selected=sel)
            what = (f"find_lowest_energy_conformer(hmethod={'None' if stage is None else 'given'}, hmethod_sp_conformers={cfg_sp}, "
                    f"allow_connectivity_changes={allow}) with low-level energies {ens1} (detached {offs1}) and final energies "
                    f"{ens2} (detached {offs2}): retained {retained}, selected {sel}")
            if isinstance(sel, int):
                have = [ens2[i] for i in retained if ens2[i] is not None]
                if ens2[sel] is None or ens2[sel] != min(have):
                    fnd.add("Species.find_lowest_energy_conformer|selected-not-minimum-of-retained", n,
                            f"{what}; the selected conformer (E={ens2[sel]}) is not the minimum {min(have)} of the retained", rep)
                close = [(i, j) for i, j in itertools.permutations(retained, 2) if D[i][j] < tolv]
                if close:
                    fnd.add("Species.find_lowest_energy_conformer|retained-pair-within-Config.rmsd_threshold", n,
                            f"{what}; with autode.Config.rmsd_threshold = {tolv} A at the time of the call the retained conformers "
                            f"{close[0]} have a low-level heavy-atom RMSD of {D[close[0][0]][close[0][1]]!r}", rep)
                if not allow and not isos[sel]:
                    fnd.add("Species.find_lowest_energy_conformer|selected-has-different-graph", n,
                            f"{what}; the FINAL geometry of the selected conformer has a bond graph that differs from the parent's "
                            f"although connectivity changes are not allowed (final isomorphic bits {isos})", rep)
                if not allow and not all(isos[i] for i in retained):
                    fnd.add("Species.find_lowest_energy_conformer|different-graph-retained", n,
                            f"{what}; retained contains a conformer whose final bond graph differs from the parent's "
                            f"(final isomorphic bits {isos})", rep)
            ctx.hist("select", f"outcome={sel if isinstance(sel, str) else 'selected'}")
            ctx.hist("select", f"hmethod={stage} cfg_sp={cfg_sp} allow={allow}")
            ctx.hist("select", "graph-changes-at-high-level=" + str(stage == "opt" and any(iso_bit(mol, a) != iso_bit(mol, b) for a, b in zip(offs1, offs2))))
            cases.add("select", f"check_select {coq_ens(ens1)} {coq_ens(ens2)} {coq_list([coq_bool(b) for b in isos])} {qc_mat(D)} "
                      f"{qc(e_tol)} {qc(n_sigma)} {qc(tolv)} {coq_bool(allow)} {exp_sel} {exp}", rep,
                      (tuple(ens1), tuple(ens2), tuple(phis), tuple(offs1), tuple(offs2), stage, cfg_sp, allow),
                      nontrivial=(retained != list(range(n))))
    finally:
        Conformers.optimise, Conformers.single_point, Config.hmethod_sp_conformers = saved
        Config.rmsd_threshold = saved_threshold
        os.chdir(cwd)
    ctx.cov["streams"].setdefault("select", {"evaluations": 0, "distinct_nontrivial": 0})["margin_skipped"] = skipped


# ------------------------------------------------------------------------------------------------
POOL = [
    ("water", [("O", 0, 0, 0), ("H", 0.96, 0, 0), ("H", -0.24, 0.93, 0)]),
    ("oh", [("O", 0, 0, 0), ("H", 0.96, 0, 0)]),
    ("f", [("F", 0, 0, 0)]),
    ("nh3", [("N", 0, 0, 0), ("H", 0.94, 0.38, 0), ("H", -0.47, 0.38, 0.81), ("H", -0.47, 0.38, -0.81)]),
    ("co", [("C", 0, 0, 0), ("O", 1.13, 0, 0)]),
    ("hcn", [("H", -1.06, 0, 0), ("C", 0, 0, 0), ("N", 1.16, 0, 0)]),
]


def make_mol(rng, which, shift):
    from autode.species.molecule import Molecule
    from autode.atoms import Atom
    name, ats = POOL[which]
    charge, mult = rng.randint(-2, 2), rng.randint(1, 4)
    atoms = [Atom(l, x=x + shift, y=y + 0.125 * shift, z=z) for l, x, y, z in ats]
    return Molecule(name=name, atoms=atoms, charge=charge, mult=mult)


def graph_of(g):
    if g is None:                      # a species without atoms reports no graph
        return 0, []
    return int(g.number_of_nodes()), sorted((int(min(a, b)), int(max(a, b))) for a, b in g.edges)


def stream_complex(ctx, cases, fnd, full):
    rng = ctx.rng
    from autode.species.complex import Complex
    combos = [()] + [c for k in (1, 2, 3) for c in itertools.product(range(len(POOL)), repeat=k)]
    if not full:
        combos = [()] + [c for c in combos if len(c) == 1] + rng.sample([c for c in combos if len(c) > 1], 70)
    for combo in combos:
        mols = [make_mol(rng, w, 7.0 * k) for k, w in enumerate(combo)]
        copy = rng.random() < 0.7
        # atom mapping re-orders the atoms of a molecule before complexes are built: with its graph already perceived
        # ("cached") or not yet ("lazy")
        reordered = []
        for m in mols:
            how = rng.choice(["no", "no", "no", "cached", "cached", "lazy"]) if m.n_atoms >= 2 else "no"
            if how != "no":
                perm = list(range(m.n_atoms))
                while perm == list(range(m.n_atoms)):
                    rng.shuffle(perm)
                if how == "cached":
                    assert m.graph is not None
                m.reorder_atoms({i: perm[i] for i in range(m.n_atoms)})
                reordered.append([how, perm])
            else:
                reordered.append(None)
        base_rep = {"kind": "complex", "molecules": [POOL[w][0] for w in combo], "charges": [m.charge for m in mols],
                    "mults": [m.mult for m in mols], "copy": copy, "reorder_atoms": reordered}
        # each molecule's OWN graph must still describe its (re-ordered) atoms: labels per node and bonds
        mol_graph_ok = True
        for k, m in enumerate(mols):
            labs = [a.label for a in m.atoms]
            own = sorted(indep_graph(labs, [tuple(float(x) for x in a.coord) for a in m.atoms]).edges)
            g_edges = sorted((int(min(a, b)), int(max(a, b))) for a, b in m.graph.edges)
            g_labs = [m.graph.nodes[i]["atom_label"] for i in range(m.n_atoms)]
            if [int(x) for x in m.graph.nodes] != list(range(m.n_atoms)):
                # the premise `sorted_nodes` of Props.complex_graph_disjoint_union_partial
                fnd.add("Species.graph|graph-nodes-not-in-label-order", m.n_atoms, f"molecule {POOL[combo[k]][0]} (reorder_atoms: {reordered[k]}): "
                        f"its graph lists the nodes as {list(m.graph.nodes)}; nx.disjoint_union_all relabels by that order, so a complex "
                        f"built from it gets a graph that is misaligned with its atoms", base_rep)
            if g_edges != own or g_labs != labs:
                mol_graph_ok = False
                fnd.add("Species.reorder_atoms|graph-does-not-follow-atoms" if reordered[k] else "mol_graphs.make_graph|differs-from-independent-perception",
                        m.n_atoms, f"molecule {POOL[combo[k]][0]} (reorder_atoms: {reordered[k]}): atoms {labs} with bonds {own} (independent "
                        f"perception) but its graph has node labels {g_labs} and edges {g_edges}", base_rep)
        # unique id per constituent atom: (molecule k, atom j) -> running number
        ids, table = [], {}
        for k, m in enumerate(mols):
            row = []
            for j, a in enumerate(m.atoms):
                table[(a.label, tuple(np.round(a.coord, 9)))] = len(table)
                row.append(len(table) - 1)
            ids.append(row)
        try:
            cx = Complex(*mols, copy=copy)
            got_atoms = [] if cx.atoms is None else [table.get((a.label, tuple(np.round(a.coord, 9))), 10**6) for a in cx.atoms]
            idxs = []
            for k in range(len(mols) + 2):
                try:
                    idxs.append([int(i) for i in cx.atom_indexes(k)])
                except AssertionError:
                    idxs.append(None)
            nn, edges = graph_of(cx.graph)
            labels_ok = [cx.graph.nodes[i]["atom_label"] for i in range(nn)] == [a.label for m in mols for a in m.atoms][:nn]
        except Exception as e:  # noqa
            fnd.add(f"Complex.__init__|raises-{type(e).__name__}", len(mols), f"building / inspecting Complex({', '.join(base_rep['molecules'])}) "
                    f"raised {type(e).__name__}: {e}", base_rep)
            continue
        rep = dict(base_rep, impl={"charge": cx.charge, "mult": cx.mult, "atom_indexes": idxs, "n_nodes": nn, "edges": edges})
        # property-level oracles on the implementation
        N = sum(m.n_atoms for m in mols)
        want_atoms = [i for row in ids for i in row]
        if got_atoms != want_atoms:
            reflected = [i for row in reversed(ids[2:]) for i in row] + [i for row in ids[:2] for i in row]
            if len(mols) >= 3 and got_atoms == reflected:
                lab = [a.label for a in cx.atoms]
                fnd.add(K_ORDER, len(mols), f"Complex({', '.join(rep['molecules'])}).atoms has labels {lab}: molecules 3..n are PREPENDED "
                        f"(sum(..., None) over Atoms: list + Atoms dispatches to Atoms.__radd__ first), while graph, atom_indexes and "
                        f"the generated conformers use the order {[a.label for m in mols for a in m.atoms]}; e.g. atom_indexes(0) = "
                        f"{idxs[0]} addresses atoms {[lab[i] for i in idxs[0]]}. {PATCH_ORDER}", rep)
            else:
                fnd.add("Complex.__init__|atoms-not-concatenation", len(mols), f"atoms (ids {got_atoms}) are not the molecules' atoms "
                        f"concatenated ({want_atoms})", rep)
        if cx.charge != sum(m.charge for m in mols):
            fnd.add("Complex.__init__|charge", len(mols), f"charge {cx.charge} != sum {sum(m.charge for m in mols)}", rep)
        if cx.mult != sum(m.mult for m in mols) - (len(mols) - 1):
            fnd.add("Complex.__init__|mult", len(mols), f"mult {cx.mult} != sum(mult) - (n-1) = "
                    f"{sum(m.mult for m in mols) - (len(mols) - 1)}", rep)
        flat = [i for r in idxs[:len(mols)] for i in (r or [])]
        if flat != list(range(N)) or [len(r or []) for r in idxs[:len(mols)]] != [m.n_atoms for m in mols] or idxs[len(mols):] != [None, None]:
            fnd.add("Complex.atom_indexes|not-a-partition", len(mols), f"atom_indexes {idxs} do not partition 0..{N - 1} into the "
                    f"molecules' sizes {[m.n_atoms for m in mols]} (or accept an index out of range)", rep)
        # independent perception of the complex's own atoms (the molecules are 7 A apart: no inter-molecular bond)
        if cx.atoms is None:
            want_edges, atom_labels = [], []
        else:
            atom_labels = [a.label for a in cx.atoms]
            want_edges = sorted(indep_graph(atom_labels, [tuple(float(x) for x in a.coord) for a in cx.atoms]).edges)
        if nn != N or edges != want_edges or not labels_ok:
            node_labels = [cx.graph.nodes[i]["atom_label"] for i in range(nn)]
            if any(r and r[0] == "cached" for r in reordered) and nn == N and mol_graph_ok:
                fnd.add(K_REORDER, len(mols), f"Complex({', '.join(rep['molecules'])}) after reorder_atoms {reordered} on molecules whose graph "
                        f"existed: atoms are {atom_labels} but the graph's nodes are labelled {node_labels} with edges {edges}; the bonds of "
                        f"these atoms are {want_edges}. nx.disjoint_union_all relabels by node ITERATION order, which "
                        f"mol_graphs.reorder_nodes (nx.relabel_nodes(copy=True)) leaves in the old order. {PATCH_REORDER}", rep)
            else:
                fnd.add("Complex.__init__|graph-not-disjoint-union", len(mols), f"graph ({nn} nodes labelled {node_labels}, edges {edges}) is "
                        f"not the disjoint union {want_edges} of the bond graphs of the atoms {atom_labels}", rep)
        ctx.hist("complex", f"n_molecules={len(mols)}")
        coq_ms = coq_list([f"(mkMol nat {coq_nats(row)} {coq_z(m.charge)} {coq_z(m.mult)} {coq_nat(m.graph.number_of_nodes())} "
                           f"{coq_nats([int(x) for x in m.graph.nodes])} "        # node labels in ITERATION order
                           + coq_list([f"({coq_nat(a)}, {coq_nat(b)})" for a, b in graph_of(m.graph)[1]]) + ")"
                           for row, m in zip(ids, mols)])
        coq_idx = coq_list(["None" if r is None else f"(Some {coq_nats(r)})" for r in idxs])
        cases.add("complex", f"check_complex {coq_ms} {coq_nats(got_atoms)} {coq_z(cx.charge)} {coq_z(cx.mult)} {coq_idx} "
                  f"{coq_nat(nn)} {coq_list([f'({coq_nat(a)}, {coq_nat(b)})' for a, b in edges])}", rep,
                  (combo, tuple(m.charge for m in mols), tuple(m.mult for m in mols), copy, str(reordered)), nontrivial=len(mols) > 1)


def stream_rigid(ctx, fnd, full):
    """Implementation-side only: rigid-body conformers of a complex preserve each molecule's internal
    distance matrix (1e-8) and keep different molecules more than 2 A apart."""
    rng = ctx.rng
    from autode.species.complex import Complex
    from autode.config import Config
    from autode.geom import get_points_on_sphere
    from scipy.spatial import distance_matrix
    saved = (Config.num_complex_sphere_points, Config.num_complex_random_rotations, Config.max_num_complex_conformers)
    try:
        for t in range(30 if full else 10):
            nm = [1, 2, 3, 2, 3, 3, 2][t % 7]          # every run has several trimers
            mols = [make_mol(rng, rng.randrange(len(POOL)), 0.0) for _ in range(nm)]
            pts, rots, cap = rng.choice([2, 4, 6]), rng.choice([1, 2]), rng.choice([3, 8, 50])
            if nm == 3:
                pts, cap = rng.choice([2, 4]), min(cap, 8)
            Config.num_complex_sphere_points, Config.num_complex_random_rotations, Config.max_num_complex_conformers = pts, rots, cap
            np.random.seed(ctx.seed * 1000 + t)
            rep0 = {"kind": "rigid", "molecules": [m.name for m in mols], "charges": [m.charge for m in mols],
                    "mults": [m.mult for m in mols], "sphere_points": pts, "rotations": rots, "cap": cap,
                    "numpy_seed": ctx.seed * 1000 + t}
            try:
                cx = Complex(*mols)
                cx._generate_conformers()
                ranges = [list(cx.atom_indexes(k)) for k in range(nm)]
                if sorted(i for r in ranges for i in r) != list(range(cx.n_atoms)):
                    raise IndexError(f"atom_indexes {ranges} do not partition the {cx.n_atoms} atoms")
            except Exception as e:  # noqa
                fnd.add(f"Complex._generate_conformers|raises-{type(e).__name__}", nm, f"Complex({', '.join(rep0['molecules'])}) with "
                        f"charges {rep0['charges']} mults {rep0['mults']}: _generate_conformers()/atom_indexes raised "
                        f"{type(e).__name__}: {e}", rep0)
                continue
            npts = len(get_points_on_sphere(n_points=pts))
            want_n = 1 if nm < 2 else min(cap, (rots * npts) ** (nm - 1))
            rep = rep0
            confs = list(cx.conformers)
            if len(confs) != want_n:
                fnd.add("Complex._generate_conformers|count", nm, f"{len(confs)} conformers generated, expected {want_n}", rep)
            for ci, conf in enumerate(confs):
                X = np.asarray(conf.coordinates, dtype=float)
                ctx.count("rigid-body", (tuple(rep["molecules"]), pts, rots, cap, ci), nontrivial=nm > 1,
                          sample=dict(rep, conformer=ci))
                bad = None
                want_labels = [a.label for m in mols for a in m.atoms]
                if [a.label for a in conf.atoms] != want_labels or conf.charge != cx.charge or conf.mult != cx.mult:
                    bad = "atom labels / charge / multiplicity differ from the molecules'"
                if ci == 0 and [a.label for a in conf.atoms] != [a.label for a in cx.atoms]:
                    key = K_ORDER if nm >= 3 else "Complex._generate_conformers|atom-order-differs-from-complex"
                    fnd.add(key, nm, f"rigid-body conformers of Complex({', '.join(rep['molecules'])}) list the atoms as {want_labels} "
                            f"but the complex itself as {[a.label for a in cx.atoms]}. {PATCH_ORDER}", rep)
                for k, m in enumerate(mols):
                    Xm = X[ranges[k]]
                    M0 = np.asarray(m.coordinates, dtype=float)
                    if np.max(np.abs(distance_matrix(Xm, Xm) - distance_matrix(M0, M0)), initial=0.0) > 1e-8:
                        bad = f"internal distances of molecule {k} changed by more than 1e-8"
                    for k2 in range(k + 1, nm):
                        dmin = float(np.min(distance_matrix(Xm, X[ranges[k2]])))
                        if not dmin > 2.0 - 1e-9:
                            bad = f"molecules {k} and {k2} are {dmin:.6f} A apart (must be > 2)"
                if bad:
                    fnd.add("Complex._generate_conformers|" + bad.split(" ")[0], nm, f"conformer {ci}: {bad}", dict(rep, conformer=ci))
            ctx.hist("rigid-body", f"n_molecules={nm}")
    finally:
        Config.num_complex_sphere_points, Config.num_complex_random_rotations, Config.max_num_complex_conformers = saved


# ------------------------------------------------------------------------------------------------
def run(ctx):
    sys.path.insert(0, REPO)
    full = not ctx.quick
    import autode  # noqa
    ctx.log("autode from", os.path.dirname(autode.__file__))
    pins_changed = source_pins(ctx.pid, PINS)
    ctx.cov["source_pins"] = {"pinned": len(PINS), "changed": pins_changed}
    if pins_changed:
        ctx.log("source pins changed:", pins_changed)
    # 1. proofs
    proofs_ok, info = ctx.proofs(SLICE, "C19/Props.v", "AV.C19.Props", extra_targets=["C19/Corr.vo"])
    ctx.log("proofs:", "ok" if proofs_ok else "BROKEN")
    ctx.cov["print_assumptions"] = info.get("assumptions", {})
    if proofs_ok and full:
        # independent re-check of the compiled closure (thorough tier only)
        rc, out = sh(["timeout", "900", "coqchk", "-silent", "-o", "-Q", COQ, "AV", "AV.C19.Props", "AV.C19.Corr"], timeout=930)
        summary = out[out.find("CONTEXT SUMMARY"):][:800] if "CONTEXT SUMMARY" in out else out[-800:]
        ctx.cov["coqchk"] = {"rc": rc, "summary": summary}
        ctx.log("coqchk -o:", "ok, axioms: <none>" if rc == 0 and "Axioms: <none>" in out else f"rc={rc}")
        if rc not in (0, 124) or (rc == 0 and "Axioms: <none>" not in out):
            proofs_ok = False
            info["log_tail"] = "coqchk: " + out[-2500:]
    # 2. implementation runs + property-level oracles + case emission
    fnd = Findings(ctx)
    cases = Cases(ctx)
    import traceback
    stream_errors = []
    for name, fn in (("energy-prune", lambda: stream_energy(ctx, cases, fnd, full)),
                     ("rmsd-prune", lambda: stream_rmsd(ctx, cases, fnd, full)),
                     ("list-ops", lambda: stream_listops(ctx, cases, fnd, full)),
                     ("prune", lambda: stream_prune(ctx, cases, fnd, full)),
                     ("select", lambda: stream_select(ctx, cases, fnd, full)),
                     ("atomless", lambda: stream_atomless(ctx, fnd, full)),
                     ("shared", lambda: stream_shared(ctx, cases, fnd, full)),
                     ("complex", lambda: stream_complex(ctx, cases, fnd, full)),
                     ("rigid-body", lambda: stream_rigid(ctx, fnd, full))):
        try:
            fn()
        except Exception:  # noqa  (an implementation call the stream did not expect to raise)
            stream_errors.append((name, traceback.format_exc()))
            ctx.log(f"stream {name} aborted:", stream_errors[-1][1][-600:])
    ctx.log(f"implementation runs done: {len(cases.terms)} correspondence cases; oracle failure classes: "
            f"{ {k: fnd.count[k] for k in sorted(fnd.count)} }")
    new_findings = fnd.flush()
    ctx.check_known_still_fail(set(fnd.best))
    # 3. correspondence
    bad, err = [], None
    if proofs_ok:
        bad, err = ctx.coq_bad_indices(PRE, cases.terms, per_file=150 if full else 120, name="c19cases")
        ctx.log(f"correspondence: {len(bad)} disagreements of {len(cases.terms)}" + (f"; coq error {err[:400]}" if err else ""))
        ctx.cov["disagreements"] = len(bad)
    # 4. decide
    if stream_errors and new_findings == 0:
        ctx.violation("a case stream aborted with an unexpected exception (property not shown to hold)",
                      {"kind": "stream-exception", "streams": [n for n, _ in stream_errors], "traceback": stream_errors[0][1]},
                      found_input=False)
    if not proofs_ok:
        ctx.proof_failure(info, found_any_input=(new_findings > 0))
    if pins_changed and new_findings == 0 and not (bad or err) and proofs_ok and not stream_errors:
        ctx.violation("hand model no longer pinned to the source: " + ", ".join(pins_changed),
                      {"kind": "source-pin", "changed": pins_changed,
                       "note": "the pinned functions changed since coq/C19/Model.v was written; the streams found no failing "
                               "input and no model/implementation disagreement, but the model is no longer shown to describe the code"},
                      found_input=False)
    if bad or err:
        if new_findings == 0:
            ctx.violation("model and implementation disagree (retained indices / error class) and no property-level oracle "
                          "failed on the implementation",
                          {"kind": "correspondence", "first": [cases.descr[i] for i in bad[:5]],
                           "coq_terms": [cases.terms[i] for i in bad[:2]], "coq_error": err}, found_input=False)
        else:
            ctx.log("correspondence disagreements accompany the implementation-level findings above; first:",
                    [cases.descr[i] for i in bad[:2]])


def replay(ctx, obj):
    """Re-run a stored input on the implementation (and the energy/complex sentences)."""
    sys.path.insert(0, REPO)
    rep = obj.get("replay", {})
    kind = rep.get("kind")
    print("stored:", obj.get("what"))
    set_name_mode(rep.get("names", "same"))
    if kind == "energy":
        ens, e_tol, n_sigma = rep["energies"], rep["e_tol"], rep["n_sigma"]
        got = impl_energy(ens, e_tol, n_sigma)
        s = energy_sentences(ens, e_tol, n_sigma, got)
        print("implementation retains", got, "; failing sentences:", s)
        if isinstance(got, list) and got:
            again = impl_energy([ens[i] for i in got], e_tol, n_sigma)
            again = [got[k] for k in again] if isinstance(again, list) else again
            print("second call retains", again)
            if again != got:
                s["not-idempotent"] = again
        bad, err = ctx.coq_bad_indices(PRE, [f"check_energy {coq_ens(ens)} {qc(e_tol)} {qc(n_sigma)} {coq_expect(got)}"], name="replay")
        print("model agrees with implementation:", not bad and not err)
        return 1 if s else 0
    if kind in ("rmsd", "prune"):
        labels, geoms = tuple(rep["labels"]), rep["geoms"]
        ens = rep.get("energies", [None] * len(geoms))
        cs = build_confs(ens, geoms, labels)
        D = rmsd_matrix(cs)
        if kind == "rmsd":
            got = run_method(cs, lambda c: c.prune_on_rmsd(rmsd_tol=rep["rmsd_tol"]))
        else:
            got = run_method(cs, lambda c: c.prune(e_tol=rep["e_tol"], rmsd_tol=rep["rmsd_tol"], n_sigma=rep["n_sigma"],
                                                   remove_no_energy=rep["remove_no_energy"]))
        tolv = rmsd_tol_value(rep["rmsd_tol"])
        close = [(i, j, D[i][j]) for i, j in itertools.permutations(got, 2) if D[i][j] < tolv] if isinstance(got, list) else []
        print("implementation retains", got, "; retained pairs within tolerance:", close)
        return 1 if (close or not isinstance(got, list) or (geoms and not got)) else 0
    print("replay of kind", kind, "re-runs the whole stream; running the full check instead")
    run(ctx)
    return 1 if ctx.violations else 0


MANIFEST = {
    "technique": "Coq proof over a hand model of the literal pruning loops, the selection pipeline and the complex bookkeeping "
                 "(source-pinned) + model/implementation correspondence on generated conformer sets and complexes + exact and "
                 "INDEPENDENT property oracles on the implementation (own Kabsch RMSD, own bond perception)",
    "level_text": ("Machine-checked theorems (coq/C19/Props.v, 22, all closed under the global context) for ALL conformer lists, energy "
                   "mixtures (present/missing), thresholds and oracles: prune_on_rmsd never raises, never empties a non-empty set, "
                   "leaves every remaining pair >= tol, is idempotent, for every tolerance argument (None / float / other number / Distance in any unit); "
                   "prune_on_energy never raises (Crash constructor of the index loop unreachable), retained energies pairwise >= e_tol "
                   "apart, every non-outlier conformer (so the lowest non-outlier energy) is retained or within e_tol of a retained "
                   "one, everything deleted is an outlier or within e_tol of a retained one, non-empty for n_sigma >= 1; lowest_energy "
                   "is the minimum; remove_no_energy / prune_diff_graph are exact filters; find_lowest_energy_conformer (call order "
                   "modelled) selects the minimum of the final energies among conformers whose FINAL geometry has the parent graph "
                   "unless allowed; Complex: atoms concatenation (Python's reflected-add dispatch modelled), charge sum, mult formula, "
                   "atom_indexes partition aligned with the atoms. REFUTED with witnesses that replay on the real code (findings): "
                   "energy pruning empties the set for n_sigma < 1 and is not idempotent (known).  Defects found by this check and "
                   "repaired in /repo (regression inputs kept): d7bdc37, 00c84a3, facdd37, e56d617 (graph node order after "
                   "reorder_atoms), 5b3a1b1 (RMSD tolerance types/units), d348d0e (e_tol None)."),
    "level_note": ("PARTIAL, stated as such in Props.v: (1) complex_graph_disjoint_union_partial needs every molecule graph to list "
                   "its nodes in label order - an invariant of make_graph and (since e56d617) reorder_nodes that is pinned and checked "
                   "by an oracle on every molecule, but graph construction is not modelled; (2) rigid_body_preserves_internal_partial / "
                   "separation_gt_2_on_exit_partial are algebra about the three primitive moves and the exit test of the push loop - "
                   "there is NO Gallina model of get_complex_conformer_atoms (loop over molecules, Atom.rotate) and termination of the "
                   "while loop is not proved (fuel): the last sentence of the property is exercised on the implementation only "
                   "(internal distance matrices 1e-8, inter-molecular distance > 2 A, count; dimers and trimers every run); "
                   "(3) energy idempotence only when no new outlier appears, non-emptiness only for n_sigma >= 1; (4) the model's "
                   "conformers all have atoms: atom-less conformers (failed optimisation) are an implementation-only stream (finding); "
                   "(5) complex_charge_sum / complex_mult are definitional (left fold = sum), their content is the correspondence; "
                   "(6) idempotence of the composite Conformers.prune has no theorem (oracle only: second call, finding key); "
                   "find_lowest_energy_conformer on species with <= 2 atoms (early return) and on a Complex is not run. "
                   "Trusted: Coq kernel + vm_compute; the hand model (24 pinned functions; validated each run on 0-40 conformers, the "
                   "two-level selection pipeline with stubbed generation/optimisation, 0-3 molecule complexes incl. re-ordered "
                   "molecules); the implementation's RMSD matrix and isomorphism bits are fed to the model but cross-checked against "
                   "independent implementations written for the harness; numpy statistics, networkx. Exact rationals stand for "
                   "doubles (dyadic inputs; near ties skipped and counted; exact ties kept when float arithmetic is provably exact)."),
}
