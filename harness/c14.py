"""C14 — a species' energies, gradient and Hessian always describe its current geometry (DESIGN 6/C14).

Tie: coq/C14/Model.v is a hand-written state machine of autode.species.Species' result bookkeeping
(ghost identities for geometry / frame / atom order, one transition per public operation).  Every run
  1. re-checks the theorems of coq/C14/Props.v (invariant Fresh for every operation and every sequence,
     copies share nothing, reorder carries graph + atoms + arrays, queries change nothing, invalid input
     rejected; Rigid.v: energy / gradient / Hessian of ANY pair potential are invariant / covariant under every
     rigid motion - the semantics of the model's frame tags);
  2. runs operation sequences on REAL Species objects - bounded-exhaustive over a 10-operation alphabet
     (depth 3 quick / 4 thorough, from a bare and from a loaded species) and random sequences of length
     <= 30 over the full operation set (incl. malformed input, optimise() with a mock calculation and
     calc_thermo()) - and after EVERY step
       a. evaluates the property itself, independently of the model: energy / gradient / Hessian /
          thermochemistry / frequencies / normal modes the species still reports are compared (1e-8) with a
          recomputation from its CURRENT coordinates with an analytic potential (harmonic all-pairs network
          whose parameters follow the physical atoms; exact gradient and Hessian); rigid motions must keep
          energies; rejected operations must leave the state alone; queries must leave the distance matrix
          alone; earlier originals of copy()/new_species() must stay bit-identical   -> ctx.finding
       b. records (error class, present flags, freshness bits, labels, graph edges, multiplicity) and lets
          Coq compare the whole trace with the model (check_trace, vm_compute)       -> correspondence;
  3. aliasing probes: copy / new_species / Conformer(species=...) of reached states - derived from the species
     AND from a conformer of it - plus the conformers held by a species and by its copy are changed one
     mutation at a time on a fresh pair (public interface incl. atoms=, rotate about a non-zero origin /
     about an atom; in-place writes to coordinate, gradient, Hessian arrays, energies list, atoms, graph) and
     every other object of the family is diffed, in both directions;
  4. the same numeric oracle on Conformer objects (their setters are overridden, the model does not cover
     them).
"""
import itertools
import json
import math
import os
import sys

import numpy as np

from common import REPO, VERIF, coq_bool, coq_list, shrink_list, source_pins

TRUSTED_BASE = [
    "Coq 8.16.1 kernel + coqc; vm_compute only in the non-vacuity examples and in the correspondence check (no native_compute)",
    "Print Assumptions: every C14 theorem is closed under the global context (no axioms)",
    "hand-written model coq/C14/Model.v of Species' bookkeeping (ghost geometry/frame/order identities), tied to /repo by the step-by-step correspondence of this harness (error class, present flags, freshness bits, labels, edges, multiplicity after every operation)",
    "the harness' analytic potential (harmonic all-pairs network, closed-form gradient and Hessian, checked against central finite differences at start-up) and its own mass-weighted projection for frequencies / normal modes",
    "oracle bits of the coordinates setter (Kabsch RMSD > 1e-8, pure translation) are supplied by construction of the input (exact rigid image up to rounding, rotations >= 1e-4 rad, distortions >= 1e-6 A per component), never taken from the implementation",
    "numpy linear algebra; Python float arithmetic (comparisons at 1e-8 abs/rel, frequencies 1e-6 rel)",
]
ASSUMPTIONS = [
    "the model identifies geometries up to the setter's own tolerance (RMSD <= 1e-8 A after Kabsch alignment counts as the same geometry); generated inputs are exact rigid images (rounding ~1e-16) or changes >= 1e-6 A / 1e-4 rad, nothing between 1e-15 and 1e-6 A, so the exact position of the 1e-8 thresholds is not observed",
    "numbers are abstracted to identities in the state machine: that 'rotating the array with the molecule' yields the derivative at the new geometry is proved for every pair potential over exact rationals (rigid_motion_covariance) and, like 'permuting rows with the atoms', checked numerically on the implementation after every step; that the code's rotation matrix is orthogonal is part of that numeric check",
    "gradient/Hessian objects handed to the setters are fresh, not shared between species and not mutated by the caller afterwards (Hessian instances are deep-copied by the setter since 8033d29, Gradient instances are still stored by reference)",
    "Conformer objects (overridden coordinates/atoms setters) are covered by the implementation-side oracle only",
]
RULE = ("bounded-exhaustive: every sequence over {energy, gradient, hessian, translate, rotate, coordinates:=distorted, "
        "coordinates:=rotated copy, reorder_atoms, frequencies+normal modes, copy} of depth 3 (quick) / 4 (thorough) from a "
        "bare and from a loaded 3-atom species (4-atom: depth 2 / 3); then random sequences of length <= 30 over 40+ "
        "operation variants incl. malformed input; every step of every sequence is one evaluation, non-trivial when the "
        "operation changed the observable state, raised, or results were present; distinct by (stream, start, path).  Targeted "
        "streams: self-aliased vectors, unit-carrying objects, multiplicity inputs, permuted / prefix-equal atom lists, steps and "
        "rotations around the setter thresholds, thermochemistry-only energies, rejected Hessian objects, non-involutive "
        "reorderings followed by frequencies and thermochemistry.")

# Source pins: every function of /repo the hand model coq/C14/Model.v (and the structure-mirroring parts of this
# harness: which arrays an operation transforms, which caches a Hessian object holds) was written from.
# A property name pins its getter AND setter (common._norm_func_src hashes all sibling defs of that name).
_SP = "autode/species/species.py"
PINS = [(_SP, "Species." + q) for q in (
    "__init__", "copy", "new_species", "atoms", "coordinates", "_reset_properties_for",
    "_clear_energies_gradient_hessian", "graph", "formula", "hessian", "gradient", "frequencies", "normal_mode",
    "radius", "sn", "energy", "mult", "charge", "reorder_atoms", "_set_reordered_atoms", "translate", "rotate",
    "_set_rigidly_moved_coordinates", "centre", "optimise", "calc_thermo")] + [
    ("autode/atoms.py", q) for q in (
        "AtomCollection.__init__", "AtomCollection.n_atoms", "AtomCollection.coordinates", "AtomCollection.atoms",
        "Atoms.coordinates", "Atoms.copy", "Atom.translate", "Atom.coord", "Atom.copy")] + [
    ("autode/hessians.py", "Hessian." + q) for q in (
        "__new__", "__deepcopy__", "n_tr", "n_v", "_tr_vecs", "_proj_matrix", "_mass_weighted", "_proj_mass_weighted",
        "normal_modes_proj", "frequencies_proj", "_eigenvalues_to_freqs")] + [
    ("autode/values.py", q) for q in (
        "Energies.append", "Energies.last", "ValueArray.__new__", "ValueArray.__array_finalize__",
        "ValueArray.__reduce__", "ValueArray.__setstate__", "Gradient", "_to")] + [
    ("autode/geom.py", q) for q in ("calc_rmsd", "get_rot_mat_kabsch", "get_rot_mat_euler", "get_rot_mat_euler_from_terms")] + [
    ("autode/conformers/conformer.py", "Conformer." + q) for q in (
        "__init__", "coordinates", "atoms", "_set_rigidly_moved_coordinates", "translate", "_set_reordered_atoms",
        "optimise")] + [
    (_SP, "Species._set_lowest_energy_conformer"), (_SP, "Species.conformers"), (_SP, "Species.print_xyz_file"),
    ("autode/atoms.py", "Atom.__init__"), ("autode/atoms.py", "Atom.rotate"), ("autode/atoms.py", "Atom.mass"),
    ("autode/atoms.py", "Atoms.com"), ("autode/atoms.py", "Atoms.moi"), ("autode/atoms.py", "Atoms.are_linear"),
    ("autode/atoms.py", "AtomCollection.com"),
    ("autode/values.py", "Coordinate"), ("autode/values.py", "Coordinates"), ("autode/values.py", "_units_init"),
    ("autode/mol_graphs.py", "make_graph"),
    ("autode/mol_graphs.py", "reorder_nodes"), ("autode/thermochemistry/symmetry.py", "symmetry_number"),
    ("autode/thermochemistry/igm.py", "calculate_thermo_cont"), ("autode/utils.py", "requires_atoms")]

SLICE = ["C14/Model.v", "C14/Lemmas.v", "C14/Rigid.v", "C14/Props.v", "C14/Corr.v"]
PRE = ("From Coq Require Import List ZArith Bool.\nFrom AV.lib Require Import QcInst.\nFrom AV.C14 Require Import Model Lemmas Corr.\nImport ListNotations.\n"
       "Notation T := true.\nNotation F := false.\nNotation Ob := mkObs.\n")

TOL = 1e-8
Z = {"H": 1, "C": 6, "N": 7, "O": 8, "F": 9, "Cl": 17, "S": 16, "B": 5}
BASE = {
    3: (["O", "H", "F"], [[0.0, 0.0, 0.0], [0.96, 0.0, 0.0], [-0.3, 0.9, 0.1]], [[0, 1], [0, 2]]),
    4: (["C", "H", "F", "Cl"], [[0.0, 0.0, 0.0], [1.05, 0.05, 0.0], [-0.35, 1.2, 0.1], [0.2, -0.45, 1.6]],
        [[0, 1], [0, 2], [0, 3]]),
}
SITE = {"energy": "Species.energy", "grad": "Species.gradient", "hess": "Species.hessian",
        "translate": "Species.translate", "rotate": "Species.rotate", "centre": "Species.centre",
        "coords": "Species.coordinates", "atoms": "Species.atoms", "copy": "Species.copy",
        "new": "Species.new_species", "reorder": "Species.reorder_atoms", "thermo": "Species.calc_thermo",
        "mult": "Species.mult", "graph": "Species.graph", "query": "Species.query"}


# ============================================================================ analytic potential
def kpar(p, q):
    p, q = min(p, q), max(p, q)
    return 0.4 + 0.07 * ((7 * p + 13 * q) % 11)


def r0par(p, q):
    p, q = min(p, q), max(p, q)
    return 0.9 + 0.11 * ((5 * p + 3 * q) % 7)


def pot(x, ident):
    """E (float), G (n,3), H (3n,3n) of  sum_{i<j} k/2 (|xi-xj| - r0)^2 ; parameters follow the PHYSICAL atoms."""
    x = np.asarray(x, dtype=float)
    n = len(x)
    e, g, h = 0.0, np.zeros((n, 3)), np.zeros((3 * n, 3 * n))
    for i in range(n):
        for j in range(i + 1, n):
            k, r0 = kpar(ident[i], ident[j]), r0par(ident[i], ident[j])
            d = x[i] - x[j]
            r = float(np.linalg.norm(d))
            u = d / r
            e += 0.5 * k * (r - r0) ** 2
            g[i] += k * (r - r0) * u
            g[j] -= k * (r - r0) * u
            blk = k * np.outer(u, u) + k * (r - r0) / r * (np.eye(3) - np.outer(u, u))
            h[3 * i:3 * i + 3, 3 * i:3 * i + 3] += blk
            h[3 * j:3 * j + 3, 3 * j:3 * j + 3] += blk
            h[3 * i:3 * i + 3, 3 * j:3 * j + 3] -= blk
            h[3 * j:3 * j + 3, 3 * i:3 * i + 3] -= blk
    return e, g, h


def selftest_potential():
    """closed-form gradient/Hessian against central differences (the oracle must be right)"""
    x = np.array(BASE[4][1]) + 0.01
    ident = [3, 0, 2, 1]
    e, g, h = pot(x, ident)
    eps = 1e-5
    for a in range(len(x)):
        for c in range(3):
            xp, xm = x.copy(), x.copy()
            xp[a, c] += eps
            xm[a, c] -= eps
            ep, gp, _ = pot(xp, ident)
            em, gm, _ = pot(xm, ident)
            if abs((ep - em) / (2 * eps) - g[a, c]) > 1e-7:
                return False
            if np.abs((gp - gm).ravel() / (2 * eps) - h[3 * a + c]).max() > 1e-6:
                return False
    return True


def rodrigues(axis, theta):
    a = np.asarray(axis, dtype=float)
    a = a / np.linalg.norm(a)
    kx = np.array([[0, -a[2], a[1]], [a[2], 0, -a[0]], [-a[1], a[0], 0]])
    return np.eye(3) + math.sin(theta) * kx + (1 - math.cos(theta)) * kx @ kx


HA_J, AMU_KG, C_CM, ANG_M = 4.3597447222071e-18, 1.66053906660e-27, 2.99792458e10, 1e-10


def vib_reference(masses, x, h):
    """eigenvalues (cm-1, signed) and the projected mass-weighted Hessian, computed independently of autode."""
    n = len(masses)
    m3 = np.repeat(masses, 3)
    hmw = h / np.sqrt(np.outer(m3, m3))
    com = (masses[:, None] * x).sum(0) / masses.sum()
    xr = x - com
    vecs = []
    for c in range(3):
        t = np.zeros((n, 3))
        t[:, c] = 1.0
        vecs.append((t * np.sqrt(masses)[:, None]).ravel())
    for c in range(3):
        ev = np.zeros(3)
        ev[c] = 1.0
        vecs.append((np.cross(ev, xr) * np.sqrt(masses)[:, None]).ravel())
    q, _ = np.linalg.qr(np.array(vecs).T)
    p = np.eye(3 * n) - q @ q.T
    hp = p @ hmw @ p
    _, _, vt = np.linalg.svd(q.T)
    comp = vt[6:].T
    lam = np.linalg.eigvalsh(comp.T @ hmw @ comp)
    conv = HA_J / AMU_KG / ANG_M ** 2
    nus = np.sign(lam) * np.sqrt(np.abs(lam) * conv) / (2 * math.pi * C_CM)
    return np.sort(nus), hp, p


# ============================================================================ one run on the implementation
class Stale(Exception):
    pass


class Run:
    """Executes operations on a real Species, observes after every step, evaluates the property oracle."""

    def __init__(self, n, with_model=True):
        from autode.species.species import Species
        from autode.atoms import Atom
        labels, xyz, edges = BASE[n]
        self.s = Species("m", [Atom(l, *c) for l, c in zip(labels, xyz)], 0, 1)
        self.s.graph = self.mk_graph(labels, edges)
        self.ident = list(range(n))
        self.next_id = n
        self.init_term = f"(init {nat_list([Z[l] for l in labels])} {edge_list(edges)} 1%Z)"
        self.trace = []          # (coq op, coq obs)
        self.steps = []          # json-able log
        self.findings = []       # (key, what)
        self.originals = []      # (object, snapshot, how) of earlier copy()/new_species() sources
        self.was = {"ef": True, "gf": True, "hf": True}   # freshness at the previous step (report transitions only)
        self.sn_skipped = 0      # G_cont comparisons skipped because only the symmetry number differs
        self.dead = False        # the species reached a state the oracle cannot track any further

    # ------------------------------------------------------------------ helpers
    @staticmethod
    def mk_graph(labels, edges):
        from autode.mol_graphs import MolecularGraph
        g = MolecularGraph()
        for i, l in enumerate(labels):
            g.add_node(i, atom_label=l, stereo=False)
        for a, b in edges:
            g.add_edge(a, b, pi=False, active=False)
        return g

    def coords(self):
        return np.array(self.s.coordinates, dtype=float)

    def labels(self):
        return [a.label for a in self.s.atoms]

    def edges(self):
        g = self.s.graph
        return sorted(tuple(sorted(e)) for e in g.edges) if g is not None else []

    def snapshot(self, s=None):
        s = self.s if s is None else s
        return {
            "labels": [a.label for a in s.atoms],
            "coords": np.array(s.coordinates, dtype=float).copy(),
            "energies": [(type(e).__name__, float(e)) for e in s.energies],
            "grad": None if s.gradient is None else np.array(s.gradient, dtype=float).copy(),
            "hess": None if s.hessian is None else np.array(s.hessian, dtype=float).copy(),
            "units": (None if s.gradient is None else s.gradient.units.name,
                      None if s.hessian is None else s.hessian.units.name),
            "edges": sorted(tuple(sorted(e)) for e in s.graph.edges) if s._graph is not None else None,
            "mult": s.mult, "charge": s.charge,
        }

    @staticmethod
    def snap_diff(a, b):
        out = []
        for k in a:
            x, y = a[k], b[k]
            if isinstance(x, np.ndarray) or isinstance(y, np.ndarray):
                if x is None or y is None or x.shape != y.shape or not np.array_equal(x, y):
                    out.append(k)
            elif x != y:
                out.append(k)
        return out

    def finding(self, key, what):
        if key not in [k for k, _ in self.findings]:
            self.findings.append((key, what))

    # ------------------------------------------------------------------ new coordinates for the setters
    def new_coords(self, op):
        x = self.coords()
        mode = op["mode"]
        if mode == "distort":
            d = np.asarray(op["delta"], dtype=float) * float(op.get("scale", 1.0))
            return x + d[:len(x)], True, False
        if mode == "rot":
            r = rodrigues(op["axis"], op["theta"])
            c = x.mean(0)
            return (x - c) @ r.T + c + np.asarray(op["shift"], dtype=float), False, False
        if mode == "trans":
            return x + np.asarray(op["shift"], dtype=float), False, True
        if mode == "same":
            return x.copy(), False, True
        raise ValueError(mode)

    # ------------------------------------------------------------------ apply one primitive operation
    def apply(self, op):
        """-> (coq op term, expected outcome class 'ok'|'ValueError'|'AssertionError', rigid?)"""
        from autode.atoms import Atom
        s, k = self.s, op["k"]
        n = s.n_atoms
        e, g, h = pot(self.coords(), self.ident)
        if k == "energy":
            term = f"SetEnergy {coq_bool(op['some'])}"
            return term, "ok", (lambda: setattr(s, "energy", e if op["some"] else None))
        if k == "grad":
            m = op["mode"]
            if m == "inst":
                from autode.values import Gradient
                u = Gradient.implemented_units[op["unit"] % len(Gradient.implemented_units)]
                return (f"SetGrad (GArr [{n};3])", "ok",
                        (lambda: setattr(s, "gradient", Gradient(g * float(u.times), units=u))))
            if m == "ok2d":
                return f"SetGrad (GArr [{n};3])", "ok", (lambda: setattr(s, "gradient", g.copy()))
            if m == "okflat":
                return f"SetGrad (GArr [{3 * n}])", "ok", (lambda: setattr(s, "gradient", g.ravel().copy()))
            if m == "none":
                return "SetGrad GNone", "ok", (lambda: setattr(s, "gradient", None))
            if m == "bad":
                return f"SetGrad (GArr [{n + 1};3])", "ValueError", (lambda: setattr(s, "gradient", np.zeros((n + 1, 3))))
            if m == "bad1d":
                return f"SetGrad (GArr [{3 * n + 1}])", "ValueError", (lambda: setattr(s, "gradient", np.zeros(3 * n + 1)))
            if m == "badshape":     # the right number of entries in a shape that is neither (n, 3) nor (3n,)
                sh = [[1, 3 * n], [3 * n, 1], [3, n] if n != 3 else [9, 1, 1]][op.get("which", 0) % 3]
                return (f"SetGrad (GArr {nat_list(sh)})", "ValueError",
                        (lambda: setattr(s, "gradient", g.ravel().reshape(sh).copy())))
            return "SetGrad GOther", "ValueError", (lambda: setattr(s, "gradient", g.tolist()))
        if k == "hess":
            m = op["mode"]
            if m == "inst":
                from autode.hessians import Hessian
                u = Hessian.implemented_units[op["unit"] % len(Hessian.implemented_units)]
                # a Hessian OBJECT in unit u (stored by reference by the setter, atoms attached by it)
                return (f"SetHess (HArr [{3 * n};{3 * n}])", "ok",
                        (lambda: setattr(s, "hessian", Hessian(h * float(u.times), units=u))))
            if m == "inst-atoms":
                from autode.hessians import Hessian
                # a Hessian object that brings its OWN frame atoms (a private copy of the current geometry)
                return (f"SetHess (HArr [{3 * n};{3 * n}])", "ok",
                        (lambda: setattr(s, "hessian", Hessian(h.copy(), atoms=s.atoms.copy()))))
            if m == "inst-bad":
                from autode.hessians import Hessian
                u = Hessian.implemented_units[op.get("unit", 0) % len(Hessian.implemented_units)]
                k3 = 3 * n + 3 * op.get("extra", 1)
                return (f"SetHess (HArr [{k3};{k3}])", "ValueError",
                        (lambda: setattr(s, "hessian", Hessian(np.eye(k3) * 0.5, units=u))))
            if m == "ok":
                return f"SetHess (HArr [{3 * n};{3 * n}])", "ok", (lambda: setattr(s, "hessian", h.copy()))
            if m == "none":
                return "SetHess HNone", "ok", (lambda: setattr(s, "hessian", None))
            if m == "bad":
                return (f"SetHess (HArr [{3 * n};{3 * n + 3}])", "ValueError",
                        (lambda: setattr(s, "hessian", np.zeros((3 * n, 3 * n + 3)))))
            if m == "bad1d":
                return f"SetHess (HArr [{3 * n}])", "ValueError", (lambda: setattr(s, "hessian", np.zeros(3 * n)))
            if m == "badbig":
                return (f"SetHess (HArr [{3 * n + 3};{3 * n + 3}])", "ValueError",
                        (lambda: setattr(s, "hessian", np.zeros((3 * n + 3, 3 * n + 3)))))
            return "SetHess HOther", "ValueError", (lambda: setattr(s, "hessian", h.tolist()))
        def own(spec):
            """a vector that ALIASES the species' own data: ["atom", i] -> the Coordinate object of atom i,
            ["row", i] -> a view of row i of species.coordinates"""
            return s.atoms[spec[1]].coord if spec[0] == "atom" else s.coordinates[spec[1]]
        if k == "translate":
            if "v_own" in op:
                return "Translate", "ok", (lambda: s.translate(own(op["v_own"])))
            return "Translate", "ok", (lambda: s.translate(np.array(op["v"], dtype=float)))
        if k == "rotate":
            def do_rot():
                axis = own(op["axis_own"]) if "axis_own" in op else np.array(op["axis"], dtype=float)
                origin = own(op["origin_own"]) if "origin_own" in op else op.get("origin")
                s.rotate(axis=axis, theta=op["theta"], origin=origin)
            return "Rotate", "ok", do_rot
        if k == "centre":
            return "Centre", "ok", (lambda: s.centre())
        if k == "coords":
            if op["mode"] == "ragged":      # size not a multiple of three: reshape((-1, 3)) raises ValueError first
                return "SetCoordsRagged", "ValueError", (lambda: setattr(s, "coordinates", np.zeros(3 * n + op.get("extra", 1))))
            if op["mode"] == "badrows":
                rows = n + op.get("extra", 1)
                return (f"SetCoords {rows} F F", "AssertionError",
                        (lambda: setattr(s, "coordinates", np.zeros((rows, 3)) + 0.5)))
            new, big, pure = self.new_coords(op)
            val = new if op.get("as", "array") == "array" else (new.tolist() if op["as"] == "list" else new.ravel())
            return f"SetCoords {n} {coq_bool(big)} {coq_bool(pure)}", "ok", (lambda: setattr(s, "coordinates", val))
        if k == "atoms":
            if op["mode"] in ("replace", "permuted"):
                labs, xyz = op["labels"], op["xyz"]
                if xyz == "same":      # the very same positions row by row, only the elements are assigned differently
                    xyz = self.coords().tolist()
                elif op["mode"] == "permuted":
                    xyz = (self.coords() + np.asarray(op["xyz"], dtype=float)[:n]).tolist()
                # different labels (or count): the oracle bits are not read by the model
                return (f"SetAtoms {nat_list([Z[l] for l in labs])} T F", "ok",
                        (lambda: setattr(s, "atoms", [Atom(l, *c) for l, c in zip(labs, xyz)])))
            new, big, pure = self.new_coords(op)
            labs = self.labels()
            return (f"SetAtoms {nat_list([Z[l] for l in labs])} {coq_bool(big)} {coq_bool(pure)}", "ok",
                    (lambda: setattr(s, "atoms", [Atom(l, *c) for l, c in zip(labs, new)])))
        if k == "copy":
            def do():
                self.originals.append((s, self.snapshot(s), "copy"))
                self.s = s.copy()
            return "Copy", "ok", do
        if k == "new":
            def do():
                self.originals.append((s, self.snapshot(s), "new_species"))
                self.s = s.new_species(name="derived")
            return "NewSpecies", "ok", do
        if k == "reorder":
            mp = {int(a): int(b) for a, b in op["map"]}
            valid = set(mp.keys()) == set(mp.values()) == set(range(n))
            term = "Reorder [" + ";".join(f"({a},{b})" for a, b in mp.items()) + "]"
            return term, ("ok" if valid else "ValueError"), (lambda: s.reorder_atoms(dict(mp)))
        if k == "query":
            q = op["q"]
            qt = {"graph": "QGraph", "sn": "QSn", "freq": "QFreq", "formula": "QFormula", "radius": "QRadius"}[q]

            def do():
                if q == "graph":
                    self.qres = sorted(s.graph.edges)
                elif q == "sn":
                    self.qres = s.sn
                elif q == "formula":
                    self.qres = s.formula
                elif q == "radius":
                    self.qres = float(s.radius)
                else:
                    fr = s.frequencies
                    self.qres = None if fr is None else ([float(f) for f in fr],
                                                         [np.array(s.normal_mode(i), dtype=float).ravel()
                                                          for i in range(len(fr))])
            return f"Query {qt}", "ok", do
        if k == "thermo":
            return "Thermo", "ok", (lambda: s.calc_thermo())
        if k == "mult":
            v = mult_value(op["v"])
            try:
                z = int(v)          # species.py:182 `int(value) > 0`, then `self._mult = int(value)`
            except (ValueError, TypeError):
                return "SetMult None", "ValueError", (lambda: setattr(s, "mult", v))
            # documented: a non-zero positive integer.  A value whose integer part is not positive must be rejected
            # (0.5, 0.999, Fraction(1, 2) ... would otherwise be stored as multiplicity 0).
            return f"SetMult (Some ({z})%Z)", ("ok" if z > 0 else "ValueError"), (lambda: setattr(s, "mult", v))
        if k == "graph":
            ed = op["edges"]
            return f"SetGraph {edge_list(ed)}", "ok", (lambda: setattr(s, "graph", self.mk_graph(self.labels(), ed)))
        raise ValueError(k)

    # ------------------------------------------------------------------ the property oracle + observation
    def observe(self, op, err, rigid_before=None):
        s = self.s
        x = self.coords()
        e, g, h = pot(x, self.ident)
        site = SITE.get(op["k"], op["k"]) if op["k"] != "query" else "Species." + {"freq": "frequencies"}.get(op["q"], op["q"])
        pes = [float(v) for v in s.energies if type(v).__name__ == "PotentialEnergy"]
        conts = [(type(v).__name__, float(v)) for v in s.energies if type(v).__name__ != "PotentialEnergy"]
        e_present = len(s.energies) > 0
        ef = all(abs(v - e) <= TOL * max(1.0, abs(e)) for v in pes)
        if s.energy is not None and abs(float(s.energy) - e) > TOL * max(1.0, abs(e)):
            ef = False
        if not ef and self.was["ef"]:
            self.finding(f"{site}|stale-energy", f"after {op['k']} the species reports energy {pes} but the energy of its "
                         f"current geometry is {e!r}")
        if conts:
            ref = self.thermo_reference(x, h)
            if ref is not None:
                for nm, v in conts:
                    want = ref.get(nm)
                    if want is not None and nm == "FreeEnergyCont" and abs(v - want) > 1e-8 * max(1.0, abs(want)):
                        # G depends on the rotational symmetry number, which autode finds in an atom-ORDER dependent way
                        # (known: C03 sn|permutation, C12 symmetry_number|atom-order-dependent).  That is no bookkeeping
                        # defect: accept G if it is the reference G for some other symmetry number (counted), H decides.
                        alt = self.thermo_reference(x, h, sns=(1, 2, 3, 4, 6, 8, 12, 24)) or {}
                        if any(abs(v - w) <= 1e-8 * max(1.0, abs(w)) for w in alt.get("FreeEnergyCont@sn", [])):
                            self.sn_skipped += 1
                            continue
                    if want is not None and abs(v - want) > 1e-8 * max(1.0, abs(want)):
                        if ef and self.was["ef"]:
                            self.finding(f"{site}|stale-thermochemistry", f"after {op['k']} {nm}={v!r} but a fresh species at the "
                                         f"current geometry gives {want!r}")
                        ef = False
        gr, he = s.gradient, s.hessian
        gb = None if gr is None else base_arr(gr)
        hb = None if he is None else base_arr(he)
        gf = True if gr is None else (gb.shape == g.shape and bool(np.allclose(gb, g, rtol=TOL, atol=TOL)))
        hf = True if he is None else (hb.shape == h.shape and bool(np.allclose(hb, h, rtol=TOL, atol=TOL)))
        if not gf and self.was["gf"]:
            self.finding(f"{site}|stale-gradient", f"after {op['k']} the reported gradient differs from dE/dx at the current "
                         f"geometry by {float(np.abs(gb - g).max()) if gb.shape == g.shape else 'shape'} Ha/A (stored in {gr.units.name})")
        if not hf and self.was["hf"]:
            self.finding(f"{site}|stale-hessian", f"after {op['k']} the reported Hessian differs from d2E/dx2 at the current "
                         f"geometry by {float(np.abs(hb - h).max()) if hb.shape == h.shape else 'shape'} Ha/A^2 (stored in {he.units.name})")
        self.was = {"ef": ef, "gf": gf, "hf": hf}
        df = True
        if op["k"] == "query" and op["q"] == "freq" and err == 0 and self.qres is not None:
            df = self.check_modes(x, h, site)
        ob = {"err": err, "e": e_present, "g": gr is not None, "h": he is not None, "ef": ef, "gf": gf, "hf": hf,
              "df": df, "labels": [Z[l] for l in self.labels()], "edges": [list(t) for t in self.edges()],
              "mult": int(s.mult)}
        return ob

    def thermo_reference(self, x, h, sns=None):
        from autode.species.species import Species
        from autode.atoms import Atom
        try:
            if sns is None:
                f = Species("ref", [Atom(l, *c) for l, c in zip(self.labels(), x)], 0, int(self.s.mult))
                f.hessian = h.copy()
                f.calc_thermo()
                return {type(v).__name__: float(v) for v in f.energies}
            gs = []
            for sn in sns:      # the same thermochemistry with an explicit symmetry number
                f = Species("ref", [Atom(l, *c) for l, c in zip(self.labels(), x)], 0, int(self.s.mult))
                f.hessian = h.copy()
                f.calc_thermo(sn=sn)
                gs += [float(v) for v in f.energies if type(v).__name__ == "FreeEnergyCont"]
            return {"FreeEnergyCont@sn": gs}
        except Exception:
            return None

    def check_modes(self, x, h, site):
        freqs, modes = self.qres
        ok = True
        for kind, msg in derived_problems(self.labels(), x, h, freqs, modes):
            ok = False
            self.finding(f"{site}|{kind}", msg)
        return ok

    # ------------------------------------------------------------------ one step: apply + oracles + trace
    def step(self, op):
        """One operation with all oracles.  Any exception of the oracle code itself (the species is in a state
        that cannot even be observed, e.g. arrays of the wrong size) becomes a finding and ends the sequence."""
        if self.dead:
            return None
        try:
            return self._step(op)
        except Exception as ex:   # noqa
            import traceback
            site = SITE.get(op["k"], op["k"])
            self.finding(f"{site}|unobservable-state-{type(ex).__name__}",
                         f"after {op} the species cannot be observed/checked: {type(ex).__name__}: {ex} "
                         f"[{traceback.format_exc().strip().splitlines()[-3].strip()}]")
            self.dead = True
            return None

    def _step(self, op):
        if op["k"] == "optimise":
            return self.optimise(op)
        s_before = self.s
        pre = self.snapshot()
        pre_ident = list(self.ident)
        dm_before = dist_matrix(pre["coords"])
        had_energy = len(s_before.energies) > 0
        term, expect, do = self.apply(op)
        self.qres = None
        err, exc = 0, None
        try:
            do()
        except ValueError as ex:
            err, exc = 1, ex
        except AssertionError as ex:
            err, exc = 2, ex
        except Exception as ex:   # noqa
            err, exc = 3, ex
        site = SITE.get(op["k"], op["k"]) if op["k"] != "query" else "Species." + {"freq": "frequencies"}.get(op["q"], op["q"])
        # physical identities follow the atoms
        if err == 0:
            if op["k"] == "reorder" and expect == "ok":
                mp = {int(a): int(b) for a, b in op["map"]}
                new_ident = [None] * len(self.ident)
                for i, p in enumerate(pre_ident):
                    new_ident[mp[i]] = p
                self.ident = new_ident
                exp_labels = [None] * len(pre["labels"])
                for i, l in enumerate(pre["labels"]):
                    exp_labels[mp[i]] = l
                if self.labels() != exp_labels:
                    self.finding("Species.reorder_atoms|atoms-not-permuted", f"labels {self.labels()} expected {exp_labels}")
                if pre["edges"] is not None:
                    exp_edges = sorted(tuple(sorted((mp[a], mp[b]))) for a, b in pre["edges"])
                    if self.edges() != exp_edges:
                        self.finding("Species.reorder_atoms|graph-not-carried", f"edges {self.edges()} expected {exp_edges} "
                                     f"for mapping {mp}")
                xn = self.coords()
                for i in range(len(pre_ident)):
                    if not np.allclose(xn[mp[i]], pre["coords"][i], atol=1e-12):
                        self.finding("Species.reorder_atoms|coordinates-not-permuted", f"atom {i} -> {mp[i]}")
            elif op["k"] == "atoms" and op["mode"] in ("replace", "permuted") and op["labels"] != pre["labels"]:
                self.ident = list(range(self.next_id, self.next_id + len(op["labels"])))
                self.next_id += len(op["labels"])
        # documented error classes
        if expect == "ok" and err != 0:
            what = f"{op} raised {type(exc).__name__}: {exc}"
            if isinstance(exc, AttributeError) and "atoms" in str(exc):
                self.finding("Species.copy|hessian-atoms-lost", what)
            else:
                self.finding(f"{site}|unexpected-{type(exc).__name__}", what)
        if expect == "ValueError" and err != 1:
            self.finding(f"{site}|invalid-input-{'accepted' if err == 0 else type(exc).__name__}",
                         f"{op}: documented ValueError expected, got {'no error' if err == 0 else type(exc).__name__}")
        if expect == "AssertionError" and err == 0:
            self.finding(f"{site}|wrong-length-accepted", f"{op} was accepted")
        if expect != "ok" and err == 0:
            self.dead = True       # invalid input was accepted: nothing sensible can be tracked from here
            return None
        ob = self.observe(op, err)
        post = self.snapshot()
        if op["k"] == "mult" and err == 0 and expect == "ok" and int(self.s.mult) != int(mult_value(op["v"])):
            self.finding(f"{site}|wrong-value-stored", f"{op}: mult is {self.s.mult}")
        if int(self.s.mult) <= 0:
            self.finding(f"{site}|non-positive-multiplicity-stored", f"after {op} the species has mult = {self.s.mult}")
        # a rejected operation leaves the species alone (results may only be DISCARDED, never altered)
        if err != 0:
            diff = self.snap_diff(pre, post)
            if expect == "AssertionError":
                diff = [d for d in diff if d not in ("energies", "grad", "hess", "units")
                        or {"energies": post["energies"] != [], "grad": post["grad"] is not None,
                            "hess": post["hess"] is not None,
                            "units": post["grad"] is not None or post["hess"] is not None}[d]]
            if diff:
                self.finding(f"{site}|state-changed-on-error", f"{op} raised {type(exc).__name__} but changed {diff}")
        # rigid-body motions keep the energies
        rigid = op["k"] in ("translate", "rotate", "centre") or (op["k"] in ("coords", "atoms") and op.get("mode") in ("rot", "trans", "same"))
        if rigid and err == 0 and had_energy and not ob["e"]:
            self.finding(f"{site}|energies-dropped-by-rigid-motion", f"{op} discarded the energies")
        if rigid and err == 0:
            if float(np.abs(dist_matrix(post["coords"]) - dm_before).max()) > 1e-9:
                self.finding(f"{site}|not-rigid", f"{op} changed interatomic distances (max change "
                             f"{float(np.abs(dist_matrix(post['coords']) - dm_before).max()):.3g} A)")
            if op["k"] == "translate":
                sh = post["coords"] - pre["coords"]
                want = pre["coords"][op["v_own"][1]] if "v_own" in op else np.array(op["v"], dtype=float)
                if float(np.abs(sh - want).max()) > 1e-9:
                    self.finding(f"{site}|wrong-shift", f"{op}: atoms moved by {sh.tolist()}, requested {want.tolist()}")
        # non-rigid change must discard
        if err == 0 and op["k"] == "atoms" and op.get("mode") in ("replace", "permuted") and self.labels() != op["labels"]:
            self.finding(f"{site}|atoms-not-assigned", f"{op}: the species now has atoms {self.labels()}, "
                         f"assigned were {op['labels']}")
        if err == 0 and ((op["k"] in ("coords", "atoms") and op.get("mode") in ("distort", "replace", "permuted"))):
            if ob["e"] or ob["g"] or ob["h"]:
                self.finding(f"{site}|results-kept-after-geometry-change", f"{op}: energies/gradient/Hessian present = "
                             f"{ob['e']}/{ob['g']}/{ob['h']} after a non-rigid change")
        # queries never alter internal geometry
        if op["k"] in ("query", "thermo") and err == 0:
            if post["labels"] != pre["labels"] or float(np.abs(dist_matrix(post["coords"]) - dm_before).max()) > 1e-12 \
                    or post["edges"] != pre["edges"] or post["mult"] != pre["mult"] \
                    or self.snap_diff({"g": pre["grad"], "h": pre["hess"]}, {"g": post["grad"], "h": post["hess"]}):
                self.finding(f"{site}|query-altered-state", f"{op} changed the species")
        # earlier originals of copy()/new_species() never change
        for obj, snap, how in self.originals:
            d = self.snap_diff(snap, self.snapshot(obj))
            if d:
                self.finding(f"aliasing|{how}|{op['k']}->{'+'.join(d)}", f"{op} on the {how} changed {d} of the original")
        self.trace.append((term, obs_term(ob)))
        self.steps.append({"op": op, "err": err, "exc": type(exc).__name__ if exc else None,
                           "obs": {k: ob[k] for k in ("e", "g", "h", "ef", "gf", "hf", "df")}})
        return ob

    def optimise(self, op):
        """Species.optimise(calc=mock): the calculation sets atoms, energy and gradient like an executor does."""
        run = self

        class MockCalc:
            name = "mock"

            def run(self_inner):
                run.step({"k": "atoms", "mode": "distort", "delta": op["delta"]})
                run.step({"k": "energy", "some": True})
                run.step({"k": "grad", "mode": "ok2d"})
        try:
            self.s.optimise(calc=MockCalc())
        except Exception as ex:   # noqa
            self.finding(f"Species.optimise|unexpected-{type(ex).__name__}", f"optimise(calc=mock) raised {ex}")
        return None

    def coq_term(self):
        return f"check_trace {self.init_term} [" + "; ".join(f"({o}, {b})" for o, b in self.trace) + "]"


def nearly_linear(x, deg=3.0):
    """all atoms within `deg` degrees of one line (autode then uses 5 instead of 6 rigid modes; the comparison of
    frequencies is ill-conditioned close to that switch): such geometries are skipped by the derived-quantity oracle"""
    x = np.asarray(x, dtype=float)
    d = x[1:] - x[0]
    u = d[0] / np.linalg.norm(d[0])
    for v in d[1:]:
        c = abs(float(v @ u)) / float(np.linalg.norm(v))
        if c < math.cos(math.radians(deg)):
            return False
    return True


def derived_problems(labels, x, h, freqs, modes):
    """frequencies / projected normal modes reported by an object vs. an independent recomputation from coordinates x
    and the Hessian h (Ha/A^2) that belongs to them.  -> [(kind, message)]"""
    from autode.atoms import Atom
    out = []
    if nearly_linear(x):
        return out
    masses = np.array([float(Atom(l).mass) for l in labels])
    nus, hp, p = vib_reference(masses, np.asarray(x, dtype=float), h)
    got = np.sort(np.array(freqs[6:]))
    if len(got) != len(nus) or not np.allclose(got, nus, rtol=1e-6, atol=1e-3):
        out.append(("stale-frequencies", f"reported vibrational frequencies {got.tolist()} but the current "
                    f"geometry has {nus.tolist()}"))
    if modes is None:
        return out
    scale = max(1e-12, float(np.abs(hp).max()))
    for i in range(6, len(modes)):
        v = modes[i]
        if v.shape != (hp.shape[0],):
            out.append(("stale-normal-modes", f"normal mode {i} has {v.shape[0]} components for a species "
                        f"with {hp.shape[0] // 3} atoms"))
            break
        nv = float(np.linalg.norm(v))
        if abs(nv - 1.0) > 1e-6:
            out.append(("bad-normal-mode", f"mode {i} has norm {nv}"))
            break
        lam = float(v @ hp @ v)
        res = float(np.linalg.norm(hp @ v - lam * v)) / scale
        outc = float(np.linalg.norm(p @ v - v))
        if res > 1e-6 or outc > 1e-6:
            out.append(("stale-normal-modes", f"normal mode {i} returned by the species is not an eigenvector of "
                        f"the projected Hessian of its current geometry/frame (residual {res:.2e}, rotational/"
                        f"translational component {outc:.2e})"))
            break
    return out


def report_derived(o):
    """(frequencies, normal modes) as the object reports them now, or None without a Hessian"""
    fr = o.frequencies
    if fr is None:
        return None
    return [float(f) for f in fr], [np.array(o.normal_mode(i), dtype=float).ravel() for i in range(len(fr))]


def base_arr(v):
    """a stored Gradient/Hessian as plain floats in the default units (Ha/A, Ha/A^2), converted with the unit's own
    declared factor (not with .to(), which is code under test)"""
    a = np.asarray(v, dtype=float)
    u = getattr(v, "units", None)
    f = float(getattr(u, "times", 1.0)) if u is not None else 1.0
    return a / f


def mult_value(v):
    """JSON-able description -> the python object handed to the mult setter"""
    if isinstance(v, list):
        from fractions import Fraction
        kind = v[0]
        if kind == "np.float64":
            return np.float64(v[1])
        if kind == "np.int64":
            return np.int64(v[1])
        if kind == "Fraction":
            return Fraction(v[1], v[2])
        if kind == "bool":
            return bool(v[1])
    return v


def dist_matrix(x):
    x = np.asarray(x, dtype=float)
    return np.linalg.norm(x[:, None, :] - x[None, :, :], axis=2)


def nat_list(xs):
    return "[" + ";".join(str(int(v)) for v in xs) + "]"


def edge_list(ed):
    return "[" + ";".join(f"({int(a)},{int(b)})" for a, b in ed) + "]"


def tf(b):
    return "T" if b else "F"


def obs_term(ob):
    return (f"Ob {ob['err']} {tf(ob['e'])} {tf(ob['g'])} {tf(ob['h'])} {tf(ob['ef'])} {tf(ob['gf'])} {tf(ob['hf'])} "
            f"{tf(ob['df'])} {nat_list(ob['labels'])} {edge_list(ob['edges'])} ({ob['mult']})%Z")


# ============================================================================ operation alphabets / generators
D3 = [[0.11, -0.07, 0.05], [-0.06, 0.13, 0.09], [0.08, 0.04, -0.12], [-0.05, -0.09, 0.07]]


def alphabet(n):
    cyc = [[i, (i + 1) % n] for i in range(n)]
    return [
        {"k": "energy", "some": True},
        {"k": "grad", "mode": "ok2d"},
        {"k": "hess", "mode": "ok"},
        {"k": "translate", "v": [0.5, -0.25, 0.125]},
        {"k": "rotate", "axis": [1.0, 2.0, 3.0], "theta": 0.7},
        {"k": "coords", "mode": "distort", "delta": D3},
        {"k": "coords", "mode": "rot", "axis": [0.0, 1.0, 1.0], "theta": 1.1, "shift": [0.3, 0.0, -0.2]},
        {"k": "reorder", "map": cyc},
        {"k": "query", "q": "freq"},
        {"k": "copy"},
    ]


MULT_VALUES = [1, 2, 3, 0, -1, -2, "abc", "x1", 0.5, 0.999, 1e-9, -0.5, 2.7, "3", "2.5", None,
               ["np.float64", 0.25], ["np.float64", 3.0], ["np.int64", 2], ["np.int64", 0],
               ["Fraction", 1, 2], ["Fraction", -3, 2], ["Fraction", 5, 2], ["bool", 0]]
LOADED = [{"k": "energy", "some": True}, {"k": "grad", "mode": "ok2d"}, {"k": "hess", "mode": "ok"}]


def random_op(rng, run):
    """One operation drawn for the CURRENT state of `run` (only sizes / labels of the state are used)."""
    n = run.s.n_atoms
    r = rng.random()

    def vec(scale=1.0):
        return [round(rng.uniform(-scale, scale), 3) for _ in range(3)]

    def axis():
        a = vec()
        return a if np.linalg.norm(a) > 0.2 else [1.0, 0.3, -0.2]

    def delta():
        return [[round(rng.choice([-1, 1]) * rng.uniform(0.05, 0.3), 3) for _ in range(3)] for _ in range(6)]

    def rigid_mode():
        m = rng.choice(["rot", "trans", "same", "rot"])
        return {"mode": m, "axis": axis(), "theta": round(rng.uniform(0.2, 2.8), 3), "shift": vec(2.0)}
    if r < 0.09:
        return {"k": "energy", "some": rng.random() < 0.9}
    if r < 0.20:
        if rng.random() < 0.25:
            return {"k": "grad", "mode": "inst", "unit": rng.randrange(4)}
        if rng.random() < 0.1:
            return {"k": "grad", "mode": "badshape", "which": rng.randrange(3)}
        return {"k": "grad", "mode": rng.choice(["ok2d", "ok2d", "okflat", "none", "bad", "bad1d", "list"])}
    if r < 0.31:
        if rng.random() < 0.35:
            return {"k": "hess", "mode": rng.choice(["inst", "inst", "inst-atoms"]), "unit": rng.randrange(5)}
        if rng.random() < 0.1:
            return {"k": "hess", "mode": "inst-bad", "unit": rng.randrange(5), "extra": rng.choice([1, -1])}
        return {"k": "hess", "mode": rng.choice(["ok", "ok", "ok", "none", "bad", "bad1d", "badbig", "list"])}
    def far_atom():
        # an atom that is not at the origin (a zero vector neither translates nor defines an axis)
        x = run.coords()
        cands = [i for i in range(n) if np.linalg.norm(x[i]) > 0.3]
        return [rng.choice(["atom", "row"]), rng.choice(cands)] if cands else None
    if r < 0.37:
        fa = far_atom()
        if fa and rng.random() < 0.3:
            return {"k": "translate", "v_own": fa}
        return {"k": "translate", "v": vec(3.0)}
    if r < 0.45:
        o = {"k": "rotate", "axis": axis(), "theta": round(rng.uniform(0.2, 2.9), 3)}
        c = rng.random()
        fa = far_atom()
        if c < 0.3:
            o["origin"] = vec(1.5)
        elif c < 0.5 and fa:
            o["origin_own"] = fa
        elif c < 0.65 and fa:
            o["axis_own"] = fa
        return o
    if r < 0.48:
        return {"k": "centre"}
    if r < 0.58:
        c1 = rng.random()
        if c1 < 0.10:
            return {"k": "coords", "mode": "badrows", "extra": rng.choice([1, -1, 2])}
        if c1 < 0.14:
            return {"k": "coords", "mode": "ragged", "extra": rng.choice([1, 2])}
        if c1 < 0.24:
            # between the setter's 1e-8 A threshold and a visible change: finite-difference sized steps / tiny rotations
            if rng.random() < 0.5:
                return {"k": "coords", "mode": "distort", "delta": delta(), "scale": rng.choice([1e-5, 1e-4, 1e-3, 1e-2])}
            return {"k": "coords", "mode": "rot", "axis": axis(), "theta": rng.choice([1e-4, 5e-4, 3e-3, 2e-2]),
                    "shift": vec(0.5)}
        o = {"k": "coords", "as": rng.choice(["array", "array", "list", "flat"])}
        o.update({"mode": "distort", "delta": delta()} if rng.random() < 0.45 else rigid_mode())
        return o
    if r < 0.66:
        c0 = rng.random()
        if c0 < 0.2:
            # same composition, different element order (position-wise different labels => new atoms)
            labs = run.labels()
            for _ in range(8):
                rng.shuffle(labs)
                if labs != run.labels():
                    return {"k": "atoms", "mode": "permuted", "labels": labs,
                            "xyz": "same" if rng.random() < 0.5 else delta()}
        if c0 < 0.3:
            # an atom list that extends / truncates the current one (equal label prefix, different length)
            labs = run.labels()
            if rng.random() < 0.5 and len(labs) == 3:
                labs2 = labs + [rng.choice(["Cl", "H", "N"])]
            elif len(labs) == 4:
                labs2 = labs[:3]
            else:
                labs2 = None
            if labs2 and all(l in Z for l in labs2):
                x0 = run.coords()
                xyz = (x0[:len(labs2)].tolist() if len(labs2) < len(labs) else
                       x0.tolist() + [(x0[0] + np.array([0.2, -0.45, 1.6])).tolist()])
                return {"k": "atoms", "mode": "replace", "labels": labs2, "xyz": xyz}
        if c0 < 0.5:
            pool = [["N", "H", "F"], ["O", "H", "Cl"], ["C", "H", "F", "Cl"], ["S", "H", "F", "O"], ["O", "H", "F"],
                    ["O", "H", "H"], ["C", "H", "H", "F"]]
            labs = rng.choice([p for p in pool if p != run.labels()])
            xyz = (np.array(BASE[len(labs)][1]) + np.array(delta())[:len(labs)]).round(4).tolist()
            return {"k": "atoms", "mode": "replace", "labels": labs, "xyz": xyz}
        o = {"k": "atoms"}
        o.update({"mode": "distort", "delta": delta()} if rng.random() < 0.5 else rigid_mode())
        return o
    if r < 0.70:
        return {"k": "copy"}
    if r < 0.72:
        return {"k": "new"}
    if r < 0.80:
        perm = list(range(n))
        rng.shuffle(perm)
        mp = [[i, perm[i]] for i in range(n)]
        c = rng.random()
        if c < 0.12:
            mp = mp[:-1]
        elif c < 0.2:
            mp[0][1] = mp[1][1]
        elif c < 0.25:
            mp.append([n, n])
        elif c < 0.28:
            mp = []
        return {"k": "reorder", "map": mp}
    if r < 0.91:
        return {"k": "query", "q": rng.choice(["graph", "sn", "freq", "freq", "freq", "formula", "radius"])}
    if r < 0.94:
        return {"k": "thermo"}
    if r < 0.98:
        return {"k": "mult", "v": rng.choice(MULT_VALUES)}
    return {"k": "optimise", "delta": delta()}


def run_sequence(n, ops, adaptive_rng=None, length=0):
    """Execute a fixed op list (or `length` adaptively drawn ops) on a fresh species. -> Run"""
    run = Run(n)
    if adaptive_rng is None:
        for op in ops:
            run.step(op)
        run.ops = list(ops)
        return run
    run.ops = []
    for _ in range(length):
        op = random_op(adaptive_rng, run)
        if op["k"] == "thermo":
            # only meaningful with a Hessian whose reference thermochemistry exists
            if run.s.hessian is None or run.thermo_reference(run.coords(), pot(run.coords(), run.ident)[2]) is None:
                op = {"k": "query", "q": "freq"}
        run.ops.append(op)
        run.step(op)
        if op["k"] == "atoms" and op["mode"] == "replace" and len(op["labels"]) != len(run.edges()) + 1:
            g = {"k": "graph", "edges": [[0, i] for i in range(1, len(op["labels"]))]}
            run.ops.append(g)
            run.step(g)
    return run


# ============================================================================ aliasing probes
def mutations(x):
    """Named ways of changing object x: through the public interface and in place.  Each one is applied to a
    FRESH (source, derived) pair, so an earlier mutation can never break an alias before a later one probes it."""
    from autode.values import PotentialEnergy
    from autode.atoms import Atom
    from autode.conformers.conformer import Conformer
    is_conf = isinstance(x, Conformer)
    n = x.n_atoms

    def set_atoms():
        x.atoms = type(x.atoms)([Atom(a.label, *(np.array(a.coord) * 1.13 + 0.2)) for a in x.atoms])

    def coords_inplace():
        c = x.coordinates          # a Conformer returns its internal array, a Species a fresh one
        c[0] = np.array(c[0]) + 0.37

    def coords_inplace_all():
        c = x.coordinates
        c -= 0.21

    muts = [
        ("coordinates[0]+=", coords_inplace),
        ("coordinates-=", coords_inplace_all),
        ("atoms=", set_atoms),
        ("rotate-about-origin", lambda: x.rotate([0.3, 1.0, 0.2], 0.9, origin=[0.7, -0.4, 0.3])),
        ("rotate-about-atom", lambda: x.rotate([1.0, 0.1, 0.2], 1.3, origin=x.coordinates[1])),
        ("translate", lambda: x.translate([1.0, 2.0, 3.0])),
        ("rotate", lambda: x.rotate([0.3, 1.0, 0.2], 0.9)),
        ("centre", lambda: x.centre()),
        ("coordinates", lambda: setattr(x, "coordinates", np.array(x.coordinates) * 1.17 + 0.3)),
        ("energy", lambda: setattr(x, "energy", -123.456)),
        ("gradient", lambda: setattr(x, "gradient", np.ones((n, 3)))),
        ("hessian", lambda: setattr(x, "hessian", np.eye(3 * n) * 2.0)),
        ("gradient[0,0]", lambda: x.gradient.__setitem__((0, 0), 9.0)),
        ("hessian[0,0]", lambda: x.hessian.__setitem__((0, 0), 9.0)),
        ("energies.append", lambda: x.energies.append(PotentialEnergy(-7.0))),
        ("energies.clear", lambda: x.energies.clear()),
        ("mult", lambda: setattr(x, "mult", 3)),
        ("charge", lambda: setattr(x, "charge", 2)),
        ("atom.translate", lambda: [a.translate(vec=np.array([0.5, 0.5, 0.5])) for a in x.atoms]),
        ("atom.coord+=", lambda: x.atoms[0].coord.__iadd__(0.25)),
        ("atom.label", lambda: setattr(x.atoms[0], "label", "B")),
        ("graph.add_edge", lambda: x.graph.add_edge(1, 2, pi=False, active=False)),
        ("graph.remove_edge", lambda: x.graph.remove_edge(0, 1)),
    ]
    if not is_conf:
        muts.append(("reorder_atoms", lambda: x.reorder_atoms({i: (i + 1) % n for i in range(n)})))
        muts.append(("atoms.pop", lambda: x.atoms.pop()))
    return muts


N_MUT = 25
GEOMETRY_MUTATIONS = {"coordinates[0]+=", "coordinates-=", "atoms=", "rotate-about-origin", "rotate-about-atom",
                      "translate", "rotate", "centre", "coordinates", "atom.translate", "atom.coord+=", "reorder_atoms"}


def aliasing_probe(ctx, run, tag):
    """Objects derived from a reached state - copy / new_species / Conformer(species=...) of the SPECIES, the same
    three of a CONFORMER of it, and the conformers held by a species and by its copy - are changed one mutation at
    a time (fresh pair each time) and every other object of the family is diffed (coordinates, labels, energies,
    gradient, Hessian, graph, mult, charge), in both directions.  -> findings"""
    from autode.conformers.conformer import Conformer
    out = []
    e0, g0, h0 = pot(run.coords(), run.ident)

    def snap(o):
        return {
            "labels": [a.label for a in o.atoms], "coords": np.array(o.coordinates, dtype=float).copy(),
            "energies": [(type(e).__name__, float(e)) for e in o.energies],
            "grad": None if o.gradient is None else np.array(o.gradient, dtype=float).copy(),
            "hess": None if o.hessian is None else np.array(o.hessian, dtype=float).copy(),
            "edges": sorted(tuple(sorted(e)) for e in o.graph.edges) if o.graph is not None else None,
            "mult": o.mult, "charge": o.charge,
        }

    def loaded_conformer(sp, name):
        c = Conformer(species=sp, name=name)
        c.energy, c.gradient, c.hessian = e0, g0.copy(), h0.copy()
        return c

    def family(src, how):
        """-> dict name -> object; 'original' is the source, 'derived' what was made from it"""
        base = run.s.copy()
        if base.hessian is None:       # results present is what matters here
            base.energy, base.gradient, base.hessian = e0, g0.copy(), h0.copy()
        if src == "species":
            o = base
        elif src == "conformer":
            o = loaded_conformer(base, "src")
        else:                      # a species holding two conformers
            base.conformers = [loaded_conformer(base, "m0"), loaded_conformer(base, "m1")]
            if how == "sibling":
                return {"original": base.conformers[0], "derived": base.conformers[1], "holder": base}
            cp = base.copy()
            return {"original": base.conformers[0], "derived": cp.conformers[0], "holder": base, "holder-copy": cp}
        d = {"copy": lambda: o.copy(), "new_species": lambda: o.new_species(name="d"),
             "conformer": lambda: Conformer(species=o, name="c")}[how]()
        if how == "conformer" and o.energies and src == "species":
            d.energy = float(o.energies[-1])
        return {"original": o, "derived": d}

    plans = [("species", h) for h in ("copy", "new_species", "conformer")] + \
            [("conformer", h) for h in ("copy", "new_species", "conformer")] + \
            [("members", "sibling"), ("members", "copy")]
    for src, how in plans:
        label = how if src == "species" else f"{src}:{how}"
        for direction in ("derived", "original"):
            for mi in range(N_MUT):
                try:
                    fam = family(src, how)
                except Exception as ex:   # noqa
                    ctx.hist("aliasing", f"derive-failed:{label}:{type(ex).__name__}")
                    break
                for o in fam.values():
                    _ = o.graph            # lazily built graphs exist before the snapshot
                mut = fam[direction]
                ms = mutations(mut)
                if mi >= len(ms):
                    break
                name, m = ms[mi]
                others = {k: o for k, o in fam.items() if o is not mut}
                before = {k: snap(o) for k, o in others.items()}
                try:
                    m()
                except Exception:   # noqa
                    pass
                ctx.count("aliasing", (tag, label, direction, name), nontrivial=True)
                moves = name in GEOMETRY_MUTATIONS
                for k, o in others.items():
                    if moves and not k.startswith("holder") and o.hessian is not None:
                        # what the UNTOUCHED object derives from its Hessian must still belong to its own data
                        try:
                            fa = getattr(o.hessian, "atoms", None)
                            if fa is not None:
                                # the Hessian's frame atoms (its own copy since 8033d29) are shared with NO other object ...
                                ids = {id(a_) for a_ in fa}
                                for k2, p2 in fam.items():
                                    if p2 is o:
                                        continue
                                    theirs = list(getattr(p2.hessian, "atoms", None) or []) if p2.hessian is not None else []
                                    if not isinstance(p2, Conformer):
                                        theirs += list(p2.atoms or [])
                                    if ids & {id(a_) for a_ in theirs}:
                                        out.append((f"aliasing|{label}|hessian.atoms-shared-with-other-object",
                                                    f"{label}: the Hessian of the {k} object refers to Atom objects of the "
                                                    f"{k2} object", {"source": src, "how": how, "dir": direction,
                                                                     "mutation": name, "changed_object": k}))
                                        break
                                # ... and describe the object's own geometry up to a rigid motion
                                fx = np.array([np.array(a_.coord, dtype=float) for a_ in fa])
                                ox = np.array(o.coordinates, dtype=float)
                                if [a_.label for a_ in fa] != [a_.label for a_ in o.atoms] or fx.shape != ox.shape \
                                        or float(np.abs(dist_matrix(fx) - dist_matrix(ox)).max()) > 1e-8:
                                    out.append((f"aliasing|{label}|hessian.atoms-not-the-object-geometry",
                                                f"{label}: the frame atoms of the {k} object's Hessian are not a rigid image of "
                                                f"that object's atoms", {"source": src, "how": how, "dir": direction,
                                                                         "mutation": name, "changed_object": k}))
                            dv = report_derived(o)
                            probs = derived_problems([a.label for a in o.atoms], np.array(o.coordinates, dtype=float),
                                                     base_arr(o.hessian), dv[0], dv[1]) if dv else []
                        except Exception as ex:   # noqa
                            probs = [(f"derived-broken-{type(ex).__name__}", str(ex))]
                        for kind, msg in probs[:1]:
                            out.append((f"aliasing|{label}|{direction}.{name}->{kind}",
                                        f"{label}: after changing the {direction} object via {name} the {k} object (whose "
                                        f"coordinates, gradient and Hessian are unchanged) reports: {msg}",
                                        {"source": src, "how": how, "dir": direction, "mutation": name,
                                         "fields": [kind], "changed_object": k}))
                    try:
                        diff = Run.snap_diff(before[k], snap(o))
                    except Exception as ex:   # noqa
                        diff = [f"broken-{type(ex).__name__}"]
                    if k.startswith("holder") and src == "members":
                        # a species is not changed by what happens to a conformer it holds
                        pass
                    if diff:
                        kept = [f for f in ("energies", "grad", "hess") if before[k][f] is not None
                                and len(before[k][f]) > 0 and f not in diff]
                        key = f"aliasing|{label}|{direction}.{name}->{'+'.join(diff)}"
                        if label == "conformer" and direction == "original" and diff == ["labels"] \
                                and name in ("atom.label", "atoms.pop"):
                            # one root cause (Conformer keeps a reference to the species' Atoms list), one key
                            key = "aliasing|conformer|original.atom.label->labels"
                        out.append((key,
                                    f"{label}: changing the {direction} object via {name} changed {diff} of the "
                                    f"{'original' if k == 'original' else k + ' object'}"
                                    + (f", which still reports its {kept}" if "coords" in diff and kept else ""),
                                    {"source": src, "how": how, "dir": direction, "mutation": name, "fields": diff,
                                     "changed_object": k}))
    return out


# ============================================================================ conformer oracle (no model)
def conformer_stream(ctx, nseq, length):
    """Numeric oracle on Conformer objects: whatever they report matches their current coordinates."""
    from autode.conformers.conformer import Conformer
    from autode.atoms import Atom, Atoms
    found = []
    for q in range(nseq):
        n = 3 if q % 2 == 0 else 4
        base = Run(n)
        c = Conformer(species=base.s, name=f"c{q}")
        ident = list(range(n))
        log = []
        for _ in range(length):
            x = np.array(c.coordinates, dtype=float)
            e, g, h = pot(x, ident)
            r = ctx.rng.random()
            dm0 = dist_matrix(x)
            had_e, had_g = c.energy is not None, c.gradient is not None
            if r < 0.15:
                op = ("energy",)
                c.energy = e
            elif r < 0.3:
                op = ("gradient",)
                c.gradient = g.copy()
            elif r < 0.45:
                op = ("hessian",)
                c.hessian = h.copy()
            elif r < 0.55:
                v = [round(ctx.rng.uniform(-2, 2), 3) for _ in range(3)]
                if ctx.rng.random() < 0.3:
                    kk = ctx.rng.randrange(n)
                    op = ("translate", f"own-row-{kk}")
                    c.translate(c.coordinates[kk])       # a view of the conformer's internal array
                else:
                    op = ("translate", v)
                    c.translate(v)
            elif r < 0.67:
                ax, th = [round(ctx.rng.uniform(0.1, 1), 3) for _ in range(3)], round(ctx.rng.uniform(0.3, 2.5), 3)
                if ctx.rng.random() < 0.3:
                    kk = ctx.rng.randrange(n)
                    op = ("rotate", ax, th, f"origin=own-row-{kk}")
                    c.rotate(ax, th, origin=c.coordinates[kk])
                else:
                    op = ("rotate", ax, th)
                    c.rotate(ax, th)
            elif r < 0.72:
                op = ("centre",)
                c.centre()
            elif r < 0.76:
                perm = list(range(n))
                ctx.rng.shuffle(perm)
                op = ("reorder_atoms", perm)
                labs0 = [a.label for a in c.atoms]
                c.reorder_atoms({i: perm[i] for i in range(n)})
                new_ident, exp = [None] * n, [None] * n
                for i in range(n):
                    new_ident[perm[i]], exp[perm[i]] = ident[i], labs0[i]
                ident = new_ident
                if [a.label for a in c.atoms] != exp:
                    found.append((K_CONF_REORDER, f"Conformer.reorder_atoms({perm}): atoms are {[a.label for a in c.atoms]}, "
                                  f"expected {exp}", list(log) + [list(op)]))
                    break
            elif r < 0.82:
                d = np.array([[ctx.rng.choice([-1, 1]) * ctx.rng.uniform(0.05, 0.3) for _ in range(3)] for _ in range(n)]).round(3)
                op = ("coordinates:=distorted", d.tolist())
                c.coordinates = x + d
            elif r < 0.87:
                rm = rodrigues([0.2, 1.0, 0.4], 0.8)
                op = ("coordinates:=rotated",)
                c.coordinates = x @ rm.T + 0.5
            elif r < 0.90:
                op = ("coordinates:=translated",)
                c.coordinates = x + np.array([0.4, -1.1, 0.7])
            elif r < 0.93:
                rm = rodrigues([1.0, 0.3, -0.4], 1.4)
                op = ("atoms:=rotated",)
                c.atoms = Atoms([Atom(a.label, *p) for a, p in zip(c.atoms, x @ rm.T - 0.3)])
            elif r < 0.96:
                op = ("copy",)
                c = c.copy()
            else:
                d = np.array([[ctx.rng.choice([-1, 1]) * ctx.rng.uniform(0.05, 0.3) for _ in range(3)] for _ in range(n)]).round(3)
                op = ("atoms:=distorted", d.tolist())
                c.atoms = Atoms([Atom(a.label, *p) for a, p in zip(c.atoms, x + d)])
            log.append(list(op))
            x = np.array(c.coordinates, dtype=float)
            e, g, h = pot(x, ident)
            kind = op[0].split(":")[0]
            ctx.count("conformer", (q, len(log)), nontrivial=True, sample={"ops": log[-3:]})
            moved_rigidly = op[0] in ("translate", "rotate", "centre", "coordinates:=rotated", "coordinates:=translated",
                                      "atoms:=rotated")
            if moved_rigidly and had_e and c.energy is None:
                found.append((f"Conformer.{kind}|energies-dropped-by-rigid-motion", f"{op[0]} discarded the energy", list(log)))
            if op[0] == "coordinates:=translated" and (had_g and c.gradient is None):
                pass   # discarding is allowed for frame-dependent quantities
            if moved_rigidly and float(np.abs(dist_matrix(x) - dm0).max()) > 1e-9:
                found.append((f"Conformer.{kind}|not-rigid", f"{op} changed interatomic distances", log))
            bad = []
            if c.energy is not None and abs(float(c.energy) - e) > TOL * max(1, abs(e)):
                bad.append("energy")
            if c.gradient is not None and not np.allclose(np.asarray(c.gradient, dtype=float), g, rtol=TOL, atol=TOL):
                bad.append("gradient")
            if c.hessian is not None and not np.allclose(np.asarray(c.hessian, dtype=float), h, rtol=TOL, atol=TOL):
                bad.append("hessian")
            if bad:
                found.append((f"Conformer.{kind}|stale-{'+'.join(bad)}",
                              f"after {op[0]} the conformer still reports {bad} that do not belong to its current coordinates",
                              list(log)))
                break
            if c.hessian is not None and ctx.rng.random() < 0.35:
                try:
                    dv = report_derived(c)
                    probs = derived_problems([a.label for a in c.atoms], x, h, dv[0], dv[1])
                except Exception as ex:   # noqa
                    probs = [(f"unexpected-{type(ex).__name__}", str(ex))]
                log.append(["frequencies"])
                if probs:
                    found.append((f"Conformer.frequencies|{probs[0][0]}", f"after {op[0]}: {probs[0][1]}", list(log)))
                    break
    return found


# ============================================================================ special inputs (fixed keys)
K_LAZY_GRAPH = "Species.reorder_atoms|lazy-graph-reordered-twice"
K_INT_GRAD = "Species.rotate|integer-gradient-truncated"
K_CONF_REORDER = "Conformer.reorder_atoms|atoms-not-permuted"


K_CONF_INPLACE = "Conformer.coordinates|inplace-edit-keeps-results"
K_CONF_NONE = "Conformer.atoms|none-then-new-geometry-keeps-results"
K_SP_NONE = "Species.atoms|none-keeps-results"
K_GRAD_SHAPE = "Species.gradient|wrong-shape-right-size-accepted"
K_INIT_MULT = "Species.__init__|non-positive-multiplicity-accepted"
K_HESS_SHARED = "Species.hessian|instance-shared-by-reference"


def special_inputs_r3(ctx):
    """Round-3 audit inputs, each under a fixed narrow key.  -> [(key, what, replay)]"""
    from autode.species.species import Species
    from autode.atoms import Atom, Atoms
    from autode.conformers.conformer import Conformer
    from autode.hessians import Hessian
    out = []

    def rp(case, **kw):
        return dict({"kind": "special", "case": case}, **kw)

    def loaded(o, x, ident):
        e, g, h = pot(np.asarray(x, dtype=float), ident)
        o.energy, o.gradient, o.hessian = e, g.copy(), h.copy()
        return e, g, h

    def stale(o, ident):
        """names of results the object reports that do not belong to its current coordinates"""
        x = np.array(o.coordinates, dtype=float)
        e, g, h = pot(x, ident)
        bad = []
        if o.energy is not None and abs(float(o.energy) - e) > TOL * max(1, abs(e)):
            bad.append("energy")
        if o.gradient is not None and not (base_arr(o.gradient).shape == g.shape and np.allclose(base_arr(o.gradient), g, rtol=TOL, atol=TOL)):
            bad.append("gradient")
        if o.hessian is not None and not (base_arr(o.hessian).shape == h.shape and np.allclose(base_arr(o.hessian), h, rtol=TOL, atol=TOL)):
            bad.append("hessian")
        return bad
    for n in (3, 4):
        labels, xyz, _ = BASE[n]
        ident = list(range(n))
        mk = lambda: Species("m", [Atom(l, *c) for l, c in zip(labels, xyz)], 0, 1)   # noqa
        delta = np.array(D3[:n])
        # (1a) in-place edits of a conformer's coordinates THROUGH its public property
        for name, edit in (("coordinates += d", lambda c: setattr(c, "coordinates", c.coordinates.__iadd__(delta))),
                           ("coordinates[0] += 0.37", lambda c: c.coordinates.__setitem__(0, np.array(c.coordinates[0]) + 0.37)),
                           ("coordinates -= 0.2*x", lambda c: setattr(c, "coordinates", c.coordinates.__isub__(0.2 * np.array(xyz))))):
            c = Conformer(species=mk(), name="c")
            loaded(c, xyz, ident)
            ctx.count("special", ("conformer-inplace", n, name))
            edit(c)
            bad = stale(c, ident)
            if bad:
                out.append((K_CONF_INPLACE, f"Conformer: `{name}` (non-rigid) leaves {bad} of the old geometry in place",
                            rp("conformer-inplace", n_atoms=n, edit=name)))
        # (1b) atoms = None, then atoms at another geometry
        c = Conformer(species=mk(), name="c")
        loaded(c, xyz, ident)
        c.atoms = None
        c.atoms = Atoms([Atom(l, *p) for l, p in zip(labels, np.array(xyz) * 1.2 + delta)])
        ctx.count("special", ("conformer-none", n))
        bad = stale(c, ident)
        if bad:
            out.append((K_CONF_NONE, f"Conformer: `atoms = None` followed by `atoms = <other geometry>` keeps {bad}",
                        rp("conformer-none", n_atoms=n)))
        # (1c) Species.atoms = None keeps everything although there is no geometry any more
        s = mk()
        loaded(s, xyz, ident)
        s.atoms = None
        ctx.count("special", ("species-none", n))
        kept = [nm for nm, v in (("energy", s.energy), ("gradient", s.gradient), ("hessian", s.hessian)) if v is not None]
        if kept:
            out.append((K_SP_NONE, f"Species: `atoms = None` leaves a species without atoms (n_atoms = {s.n_atoms}) that still "
                        f"reports {kept}", rp("species-none", n_atoms=n)))
        else:
            s.atoms = [Atom(l, *p) for l, p in zip(labels, xyz)]
        # (5) gradient of the right size but neither (n, 3) nor (3n,)
        s = mk()
        for sh in ((3, n), (1, 3 * n), (3 * n, 1)) + (((2, 2, 3),) if n == 4 else ()):
            if sh == (n, 3):
                continue
            ctx.count("special", ("grad-shape", n, sh))
            try:
                s.gradient = np.arange(3.0 * n).reshape(sh)
                out.append((K_GRAD_SHAPE, f"gradient of shape {sh} for {n} atoms is accepted (stored as "
                            f"{np.asarray(s.gradient).shape}); documented: must be ({n}, 3) or ({3 * n},)",
                            rp("grad-shape", n_atoms=n, shape=list(sh))))
                break
            except ValueError:
                pass
        # (6) multiplicity at construction
        for m in (0, -1, 0.5, -2.5):
            ctx.count("special", ("init-mult", n, m))
            for ctor, nm in ((lambda: Species("m", [Atom(l, *c) for l, c in zip(labels, xyz)], 0, m), "Species"),
                             (lambda: Conformer(atoms=Atoms([Atom(l, *c) for l, c in zip(labels, xyz)]), mult=m), "Conformer")):
                try:
                    o = ctor()
                    if int(o.mult) <= 0:
                        out.append((K_INIT_MULT, f"{nm}(..., mult={m}) is constructed with mult = {o.mult}",
                                    rp("init-mult", n_atoms=n, mult=m, cls=nm)))
                except ValueError:
                    pass
        # (2) one Hessian object handed to two species (new_species; the library does this in calc_thermo(calc=...))
        s1 = mk()
        e, g, h = loaded(s1, xyz, ident)
        s2 = s1.new_species(name="d")
        s2.hessian = s1.hessian
        s1.rotate([1.0, 2.0, 3.0], 0.7)
        ctx.count("special", ("hessian-shared", n))
        try:
            dv = report_derived(s2)
            probs = derived_problems(labels, np.array(s2.coordinates, dtype=float), base_arr(s2.hessian), dv[0], dv[1])
        except Exception as ex:   # noqa
            probs = [(f"unexpected-{type(ex).__name__}", str(ex))]
        if probs:
            out.append((K_HESS_SHARED, f"s2 = s1.new_species(); s2.hessian = s1.hessian; s1.rotate(...): s2 (not touched, "
                        f"coordinates and Hessian unchanged) now reports: {probs[0][1]}", rp("hessian-shared", n_atoms=n)))
        # (12c) adopting the lowest-energy conformer is a geometry change
        s = mk()
        loaded(s, xyz, ident)
        cs = []
        for j, sc in enumerate((1.15, 1.3)):
            cj = Conformer(species=s, name=f"c{j}")
            cj.coordinates = np.array(xyz) * sc + delta * j
            cj.energy = pot(np.array(cj.coordinates, dtype=float), ident)[0]
            cs.append(cj)
        s.conformers = cs
        ctx.count("special", ("lowest-conformer", n))
        try:
            s._set_lowest_energy_conformer()
            bad = stale(s, ident)
            if bad:
                out.append(("Species._set_lowest_energy_conformer|stale-" + "+".join(bad),
                            f"after adopting the lowest-energy conformer the species reports {bad} of its old geometry",
                            rp("lowest-conformer", n_atoms=n)))
        except Exception as ex:   # noqa
            out.append((f"Species._set_lowest_energy_conformer|unexpected-{type(ex).__name__}", str(ex),
                        rp("lowest-conformer", n_atoms=n)))
    return out


def special_inputs(ctx):
    """Inputs outside the sequence generators: a species whose graph was never touched before reorder_atoms,
    integer-typed result arrays, reorder_atoms on a Conformer.  -> [(key, what, replay)]"""
    from autode.species.species import Species
    from autode.atoms import Atom
    from autode.conformers.conformer import Conformer
    out = []
    for n in (3, 4):
        labels, xyz, _ = BASE[n]
        maps = [{i: (i + 1) % n for i in range(n)}, {0: 1, 1: 0, **{i: i for i in range(2, n)}}]
        for mp in maps:
            # (1) reorder before the graph was ever built: it must be the graph of the reordered molecule
            s = Species("m", [Atom(l, *c) for l, c in zip(labels, xyz)], 0, 1)
            s.reorder_atoms(dict(mp))
            inv = {v: k for k, v in mp.items()}
            ref = Species("r", [Atom(labels[inv[p]], *xyz[inv[p]]) for p in range(n)], 0, 1)
            ctx.count("special", ("lazy-graph", n, tuple(mp.items())))
            got = sorted(tuple(sorted(map(int, e))) for e in s.graph.edges)
            want = sorted(tuple(sorted(map(int, e))) for e in ref.graph.edges)
            nl = [s.graph.nodes[i].get("atom_label") for i in range(n)]
            if got != want or nl != [a.label for a in s.atoms]:
                out.append((K_LAZY_GRAPH, f"reorder_atoms({mp}) on a species whose graph was never accessed: graph edges {got} "
                            f"with node labels {nl}, but the reordered molecule {[a.label for a in s.atoms]} has bonds {want}",
                            {"kind": "special", "case": "lazy-graph", "n_atoms": n, "mapping": list(mp.items())}))
            # (3) reorder on a conformer
            c = Conformer(species=Species("m", [Atom(l, *c) for l, c in zip(labels, xyz)], 0, 1), name="c")
            ident = list(range(n))
            e, g, h = pot(np.array(xyz), ident)
            c.energy, c.gradient, c.hessian = e, g.copy(), h.copy()
            ctx.count("special", ("conformer-reorder", n, tuple(mp.items())))
            try:
                c.reorder_atoms(dict(mp))
                x = np.array(c.coordinates, dtype=float)
                labs = [a.label for a in c.atoms]
                exp_labs = [labels[inv[p]] for p in range(n)]
                if labs != exp_labs or not np.allclose(x, np.array(xyz)[[inv[p] for p in range(n)]]):
                    # atoms stayed: then the arrays must have stayed too
                    e2, g2, h2 = pot(x, ident)
                    stale = [nm for nm, a, b in (("gradient", c.gradient, g2), ("hessian", c.hessian, h2))
                             if a is not None and not np.allclose(np.asarray(a, dtype=float), b, atol=TOL)]
                    out.append((K_CONF_REORDER, f"Conformer.reorder_atoms({mp}): atoms are {labs} (expected {exp_labs})"
                                + (f" while {stale} were permuted and no longer belong to the atoms" if stale else ""),
                                {"kind": "special", "case": "conformer-reorder", "n_atoms": n, "mapping": list(mp.items())}))
                else:
                    e2, g2, h2 = pot(x, [ident[inv[p]] for p in range(n)])
                    if not (np.allclose(np.asarray(c.gradient, dtype=float), g2, atol=TOL)
                            and np.allclose(np.asarray(c.hessian, dtype=float), h2, atol=TOL)):
                        out.append(("Conformer.reorder_atoms|stale-gradient-hessian", f"Conformer.reorder_atoms({mp}) left "
                                    f"gradient/Hessian that do not belong to the reordered atoms",
                                    {"kind": "special", "case": "conformer-reorder", "n_atoms": n, "mapping": list(mp.items())}))
            except Exception as ex:   # noqa
                out.append((f"Conformer.reorder_atoms|unexpected-{type(ex).__name__}", f"{mp}: {ex}",
                            {"kind": "special", "case": "conformer-reorder", "n_atoms": n, "mapping": list(mp.items())}))
        # (2) integer-typed gradient / Hessian through rigid motions and reorder (metamorphic: R G, R H R^T)
        for dt in (int, np.int32, np.float32):
            s = Species("m", [Atom(l, *c) for l, c in zip(labels, xyz)], 0, 1)
            gi = (np.arange(3 * n).reshape(n, 3) * 3 - 7).astype(dt)
            hi = (np.arange(9 * n * n).reshape(3 * n, 3 * n) % 11 - 5)
            hi = (hi + hi.T).astype(dt)
            s.gradient, s.hessian = gi.copy(), hi.copy()
            axis, th = [0.3, -1.0, 0.6], 0.8
            s.rotate(axis, th, origin=[0.2, 0.1, -0.4])
            s.translate([1.0, -2.0, 0.5])
            rm = rodrigues(axis, th)
            big = np.kron(np.eye(n), rm)
            ctx.count("special", ("typed-arrays", n, np.dtype(dt).name))
            tol = 1e-5 if dt is np.float32 else 1e-9
            dg = float(np.abs(np.asarray(s.gradient, dtype=float) - gi.astype(float) @ rm.T).max())
            dh = float(np.abs(np.asarray(s.hessian, dtype=float) - big @ hi.astype(float) @ big.T).max())
            if dg > tol or dh > tol:
                out.append((K_INT_GRAD if dg > tol else "Species.rotate|typed-hessian-wrong",
                            f"gradient/Hessian given as {np.dtype(dt).name} arrays: after rotate the gradient differs from "
                            f"R.G by {dg:.3g} and the Hessian from R.H.R^T by {dh:.3g}",
                            {"kind": "special", "case": "typed-arrays", "n_atoms": n, "dtype": np.dtype(dt).name}))
    return out


# ============================================================================ main
def check_traces(ctx, runs, name):
    """Coq compares every trace with the model.  -> list of (run, first failing step, fields)"""
    terms = [r.coq_term() for r in runs]
    bad, err = ctx.coq_bad_indices(PRE, terms, per_file=200 if len(terms) < 4000 else 500, name=name)
    out = []
    if bad:
        # localise the first few: first failing prefix and which fields differ
        diag_terms, refs = [], []
        for bi in bad[:6]:
            r = runs[bi]
            for k in range(1, len(r.trace) + 1):
                pref = "[" + "; ".join(f"({o}, {b})" for o, b in r.trace[:k]) + "]"
                for f in range(11):
                    diag_terms.append(f"check_last_field {f} {r.init_term} {pref}")
                    refs.append((bi, k - 1, f))
        dbad, _ = ctx.coq_bad_indices(PRE, diag_terms, per_file=2000, name=name + "_diag")
        names = ["error-class", "energies-present", "gradient-present", "hessian-present", "energy-fresh", "gradient-fresh",
                 "hessian-fresh", "modes-fresh", "labels", "edges", "mult"]
        first = {}
        for di in dbad or []:
            bi, k, f = refs[di]
            if bi not in first or k < first[bi][0]:
                first[bi] = (k, [names[f]])
            elif k == first[bi][0]:
                first[bi][1].append(names[f])
        for bi in bad:
            k, fields = first.get(bi, (None, []))
            out.append((runs[bi], k, fields))
    return out, err


def run(ctx):
    sys.path.insert(0, REPO)
    os.chdir(ctx.work)
    import logging
    logging.disable(logging.CRITICAL)
    full = not ctx.quick
    pins_changed = source_pins(ctx.pid, PINS)
    ctx.cov["source_pins"] = {"pinned": len(PINS), "changed": pins_changed}
    if pins_changed:
        ctx.log("source pins changed:", ", ".join(pins_changed))
    # 1. proofs
    proofs_ok, info = ctx.proofs(SLICE, "C14/Props.v", "AV.C14.Props", extra_targets=["C14/Corr.vo"])
    ctx.log("proofs:", "ok" if proofs_ok else "BROKEN")
    ctx.cov["print_assumptions"] = info.get("assumptions", {})
    if not selftest_potential():
        ctx.violation("harness self-test: analytic gradient/Hessian disagree with finite differences",
                      {"kind": "harness-selftest"}, found_input=False)
        return
    findings = []     # (key, what, replay)
    runs = []

    def account(stream, r, start):
        for i, st in enumerate(r.steps):
            nontriv = st["err"] != 0 or st["obs"]["e"] or st["obs"]["g"] or st["obs"]["h"] or st["op"]["k"] in ("copy", "reorder")
            ctx.count(stream, (start, json.dumps([s["op"] for s in r.steps[:i + 1]], sort_keys=True)), nontrivial=nontriv,
                      sample={"start": start, "ops": [s["op"]["k"] for s in r.steps[:i + 1]], "obs": st["obs"]})
            ctx.hist(stream, st["op"]["k"] + ("!" if st["err"] else ""))
        for _ in range(getattr(r, "sn_skipped", 0)):
            ctx.hist(stream, "G_cont-differs-by-symmetry-number-only(skipped)")
        for key, what in r.findings:
            findings.append((key, what, {"kind": "sequence", "n_atoms": r.n0, "ops": r.ops}))

    # 2a. bounded-exhaustive sequences
    plans = [(3, 4 if full else 3), (4, 3 if full else 2)]
    for n, depth in plans:
        alpha = alphabet(n)
        for start_name, prefix in (("bare", []), ("loaded", LOADED)):
            # every sequence of exactly `depth` operations: all shorter ones are its prefixes, and every step of
            # every sequence is observed and checked
            for combo in itertools.product(range(len(alpha)), repeat=depth):
                ops = prefix + [alpha[i] for i in combo]
                r = run_sequence(n, ops)
                r.n0 = n
                runs.append(r)
                account("exhaustive", r, f"{n}-{start_name}")
    # 2a'. rigid motions whose vector / origin / axis IS one of the species' own coordinate arrays
    for n in (3, 4):
        for i in range(n):
            for kind in ("atom", "row"):
                for o in ({"k": "translate", "v_own": [kind, i]},
                          {"k": "rotate", "axis": [0.2, 1.0, 0.5], "theta": 0.9, "origin_own": [kind, i]},
                          {"k": "rotate", "theta": 1.2, "axis_own": [kind, i]}):
                    ops = LOADED + [{"k": "translate", "v": [0.3, 0.2, -0.1]}, o, {"k": "query", "q": "freq"},
                                    dict(o), {"k": "energy", "some": True}]
                    r = run_sequence(n, ops)
                    r.n0 = n
                    runs.append(r)
                    account("self-aliased", r, f"{n}")
    # 2b'. Hessian / gradient OBJECTS in every implemented unit through queries, copy, rotate, reorder, thermo
    for n in (3, 4):
        cyc = alphabet(n)[7]
        for ui in range(5):
            tail = [{"k": "query", "q": "freq"}, {"k": "query", "q": "freq"}, {"k": "copy"}, {"k": "query", "q": "freq"},
                    {"k": "rotate", "axis": [1.0, 2.0, 3.0], "theta": 0.7}, {"k": "query", "q": "freq"}, cyc,
                    {"k": "query", "q": "freq"}, {"k": "thermo"}, {"k": "translate", "v": [0.5, -0.25, 0.125]},
                    {"k": "query", "q": "freq"}]
            for pre in ([], [{"k": "energy", "some": True}, {"k": "grad", "mode": "inst", "unit": ui}]):
                for tl in (tail, [{"k": "thermo"}] + tail[2:]):
                    r = run_sequence(n, pre + [{"k": "hess", "mode": "inst", "unit": ui}] + tl)
                    r.n0 = n
                    runs.append(r)
                    account("units", r, f"{n}-u{ui}")
    # 2b+. input classes found missing by the round-3 audit / seeded changes
    small = [{"k": "coords", "mode": "distort", "delta": D3, "scale": sc} for sc in (1e-5, 1e-4, 1e-3, 1e-2)] + \
            [{"k": "atoms", "mode": "distort", "delta": D3, "scale": 1e-4}] + \
            [{"k": "coords", "mode": "rot", "axis": [0.0, 1.0, 1.0], "theta": th, "shift": [0.0, 0.0, 0.0]}
             for th in (1e-4, 1e-3, 1e-2)] + \
            [{"k": "atoms", "mode": "rot", "axis": [1.0, 0.2, 0.3], "theta": 5e-4, "shift": [0.1, 0.0, 0.0]}]
    for n in (3, 4):
        extra = []
        # thresholds of the coordinates setter: steps between 1e-8 A and a visible change, tiny rotations
        extra += [LOADED + [o, {"k": "query", "q": "freq"}] for o in small]
        # energies that hold ONLY thermochemical contributions, then a non-rigid change
        for lose in ({"k": "hess", "mode": "none"},
                     {"k": "coords", "mode": "rot", "axis": [0.0, 1.0, 1.0], "theta": 1.1, "shift": [0.3, 0.0, -0.2]}):
            for chg in ({"k": "coords", "mode": "distort", "delta": D3}, {"k": "atoms", "mode": "distort", "delta": D3},
                        {"k": "coords", "mode": "distort", "delta": D3, "scale": 1e-3}):
                extra.append([{"k": "hess", "mode": "ok"}, {"k": "thermo"}, lose, chg, {"k": "energy", "some": True}])
        # a rejected Hessian OBJECT of the wrong shape must leave a valid Hessian alone; ragged / wrong-length coordinates
        for ui in (0, 3):
            for ex in (1, -1):
                extra.append(LOADED + [{"k": "hess", "mode": "inst-bad", "unit": ui, "extra": ex}, {"k": "query", "q": "freq"}])
                extra.append([{"k": "hess", "mode": "inst-bad", "unit": ui, "extra": ex}, {"k": "query", "q": "freq"}])
        # a Hessian object with its own frame atoms through every motion, then every derived quantity
        extra.append([{"k": "hess", "mode": "inst-atoms"}, {"k": "query", "q": "freq"}, {"k": "translate", "v": [0.5, -0.25, 0.125]},
                      {"k": "query", "q": "freq"}, {"k": "rotate", "axis": [1.0, 2.0, 3.0], "theta": 0.7, "origin": [0.3, 0.1, -0.2]},
                      {"k": "query", "q": "freq"}, {"k": "reorder", "map": [[i, (i + 1) % n] for i in range(n)]},
                      {"k": "query", "q": "freq"}, {"k": "thermo"}, {"k": "copy"}, {"k": "rotate", "axis": [0.0, 1.0, 1.0], "theta": 1.1},
                      {"k": "query", "q": "freq"}])
        for wh in range(3):
            extra.append(LOADED + [{"k": "grad", "mode": "badshape", "which": wh}, {"k": "energy", "some": True}])
        extra.append(LOADED + [{"k": "coords", "mode": "ragged", "extra": 1}, {"k": "coords", "mode": "badrows", "extra": 1},
                               {"k": "energy", "some": True}])
        # atom lists that extend / truncate the current one (equal label prefix)
        labs, xyz, _ = BASE[n]
        if n == 3:
            extra.append(LOADED + [{"k": "atoms", "mode": "replace", "labels": labs + ["Cl"], "xyz": xyz + [[0.2, -0.45, 1.6]]},
                                   {"k": "query", "q": "formula"}])
        else:
            extra.append(LOADED + [{"k": "atoms", "mode": "replace", "labels": labs[:3], "xyz": xyz[:3]},
                                   {"k": "query", "q": "formula"}])
        # non-involutive reorderings with everything stored, then every derived quantity
        for mp in ([[i, (i + 1) % n] for i in range(n)], [[i, (i - 1) % n] for i in range(n)]):
            extra.append(LOADED + [{"k": "reorder", "map": mp}, {"k": "query", "q": "freq"}, {"k": "thermo"},
                                   {"k": "rotate", "axis": [1.0, 2.0, 3.0], "theta": 0.7}, {"k": "query", "q": "freq"}])
        for ops in extra:
            r = run_sequence(n, ops)
            r.n0 = n
            runs.append(r)
            account("audit-classes", r, f"{n}")
    # 2b''. every multiplicity input from a loaded species, and same-composition atom lists in another order
    for n in (3, 4):
        for v in (MULT_VALUES if (full or n == 3) else []):
            r = run_sequence(n, LOADED + [{"k": "mult", "v": v}, {"k": "copy"}, {"k": "query", "q": "sn"}])
            r.n0 = n
            runs.append(r)
            account("mult", r, f"{n}")
        labs = BASE[n][0]
        for pi, perm in enumerate(itertools.permutations(range(n))):
            pl = [labs[i] for i in perm]
            if pl == labs or (ctx.quick and n == 4 and pi % 3):
                continue
            for xyz in ("same", D3):
                r = run_sequence(n, LOADED + [{"k": "atoms", "mode": "permuted", "labels": pl, "xyz": xyz},
                                              {"k": "query", "q": "formula"}])
                r.n0 = n
                runs.append(r)
                account("permuted-atoms", r, f"{n}")
    for labs0, labs1 in ((["O", "H", "H"], ["H", "O", "H"]), (["O", "H", "H"], ["H", "H", "O"]),
                         (["C", "H", "H", "F"], ["H", "C", "F", "H"])):
        n = len(labs0)
        for xyz in ("same", D3):
            r = run_sequence(n, [{"k": "atoms", "mode": "replace", "labels": labs0, "xyz": BASE[n][1]}] + LOADED +
                             [{"k": "atoms", "mode": "permuted", "labels": labs1, "xyz": xyz}, {"k": "query", "q": "formula"}])
            r.n0 = n
            runs.append(r)
            account("permuted-atoms", r, f"{n}-rep")
    ctx.log(f"exhaustive sequences: {len(runs)} ({sum(len(r.steps) for r in runs)} steps), findings so far {len(findings)}")
    # 2b. random sequences
    nrand = 1200 if full else 120
    rand_runs = []
    for q in range(nrand):
        n = 3 if ctx.rng.random() < 0.6 else 4
        r = run_sequence(n, None, adaptive_rng=ctx.rng, length=ctx.rng.randint(4, 30))
        r.n0 = n
        rand_runs.append(r)
        account("random", r, f"{n}-r{q}")
    ctx.log(f"random sequences: {len(rand_runs)} ({sum(len(r.steps) for r in rand_runs)} steps), findings so far {len(findings)}")
    # 3. aliasing probes on reached states
    nal = 60 if full else 5
    for q, r in enumerate(rand_runs[:nal] + runs[-3:]):
        for key, what, rep in aliasing_probe(ctx, r, q):
            findings.append((key, what, {"kind": "aliasing", "n_atoms": r.n0, "ops": r.ops, **rep}))
    # 4. conformers
    for key, what, log in conformer_stream(ctx, 120 if full else 25, 14):
        findings.append((key, what, {"kind": "conformer", "ops": log}))
    # 4'. special inputs
    for key, what, rep in special_inputs(ctx) + special_inputs_r3(ctx):
        findings.append((key, what, rep))
    # report findings (shrunk sequences)
    n_viol0 = len(ctx.violations)
    seen = set()
    for key, what, rep in findings:
        if key in seen:
            continue
        seen.add(key)
        if len(seen) > 12:
            break
        if rep.get("kind") == "sequence":
            def fails(sub, key=key, n=rep["n_atoms"]):
                try:
                    return key in [k for k, _ in replay_ops(n, sub).findings]
                except Exception:   # noqa
                    return False
            small = shrink_list(rep["ops"], fails) if len(rep["ops"]) > 1 and fails(rep["ops"]) else rep["ops"]
            rep = dict(rep, ops=small)
        ctx.finding(key, what, rep)
    ctx.cov["impl_oracle_findings"] = sorted(seen)
    ctx.check_known_still_fail(seen)
    new_viol = len(ctx.violations) - n_viol0      # findings that are not listed as known
    ctx.log(f"implementation oracles: {len(seen)} distinct findings ({new_viol} not listed as known)")
    # 5. correspondence
    corr_bad, corr_err = [], None
    if proofs_ok:
        corr_bad, corr_err = check_traces(ctx, runs + rand_runs, "c14cases")
        ctx.cov["disagreements"] = len(corr_bad)
        ctx.log(f"correspondence: {len(runs) + len(rand_runs)} traces, {len(corr_bad)} disagreements" +
                (f"; coq error {corr_err[:300]}" if corr_err else ""))
    # 6. decide
    if not proofs_ok:
        ctx.proof_failure(info, found_any_input=new_viol > 0)
    if pins_changed and new_viol == 0 and not (corr_bad or corr_err) and proofs_ok:
        ctx.violation("hand model no longer pinned to the source: " + ", ".join(pins_changed),
                      {"kind": "source-pin", "changed": pins_changed}, found_input=False)
    if corr_bad or corr_err:
        if new_viol == 0:
            r, k, fields = corr_bad[0] if corr_bad else (None, None, [])
            ctx.violation("model and implementation disagree (correspondence stream) and no property-level oracle failed "
                          "on the implementation" + (f": first at step {k} ({r.steps[k]['op'] if r and k is not None else '?'}) "
                                                     f"in {fields}" if r else ""),
                          {"kind": "correspondence", "n_atoms": getattr(r, "n0", None), "ops": getattr(r, "ops", None),
                           "step": k, "fields": fields, "steps": getattr(r, "steps", None), "coq_error": corr_err},
                          found_input=False)
        else:
            for r, k, fields in corr_bad[:3]:
                ctx.log(f"  disagreement at step {k} {r.steps[k]['op'] if k is not None else ''} in {fields} "
                        f"(explained by the implementation-level findings above)")


def replay_ops(n, ops):
    r = Run(n)
    r.n0 = n
    r.ops = list(ops)
    for op in ops:
        r.step(op)
    return r


def replay(ctx, obj):
    sys.path.insert(0, REPO)
    os.chdir(ctx.work)
    import logging
    logging.disable(logging.CRITICAL)
    rep = obj.get("replay", {})
    if rep.get("kind") == "sequence" or (rep.get("kind") == "correspondence" and rep.get("ops")):
        r = replay_ops(rep["n_atoms"], rep["ops"])
        for st in r.steps:
            print("  ", json.dumps(st["op"]), "->", "err" if st["err"] else "ok", st["exc"] or "", st["obs"])
        for key, what in r.findings:
            print("FINDING", key, ":", what)
        print("replay: findings =", len(r.findings), "; stored:", obj.get("what"))
        return 1 if r.findings else 0
    if rep.get("kind") == "aliasing":
        r = replay_ops(rep["n_atoms"], rep["ops"])
        out = aliasing_probe(ctx, r, 0)
        for key, what, _ in out:
            print("FINDING", key, ":", what)
        return 1 if out else 0
    if rep.get("kind") == "conformer":
        out = conformer_stream(ctx, 40, 14)
        for key, what, _ in out[:5]:
            print("FINDING", key, ":", what)
        return 1 if out else 0
    if rep.get("kind") == "special":
        out = special_inputs(ctx) + special_inputs_r3(ctx)
        for key, what, _ in out:
            print("FINDING", key, ":", what)
        return 1 if out else 0
    print("nothing to replay for", rep.get("kind"))
    return 2


MANIFEST = {
    "technique": "Coq proof over a hand-written, number-free state-machine model of Species' result bookkeeping + step-by-step "
                 "model/implementation correspondence + independent analytic recomputation of every reported quantity "
                 "(the numeric oracle carries the property; the theorems fix the bookkeeping logic)",
    "level_text": ("Machine-checked (coq/C14/Props.v, 15 theorems, closed under the global context).  PROVED about the model, for "
                   "all states and all operation sequences: the tag invariant Fresh (every stored energy / gradient / Hessian / "
                   "memoised value carries the current geometry-, frame- and atom-order identity) holds initially, after every "
                   "public operation and every sequence (fresh_initially, fresh_step, fresh_reachable, "
                   "reported_results_are_current); a positive multiplicity stays positive (multiplicity_stays_positive); "
                   "reorder_atoms renames graph nodes, atoms and array rows by one permutation (reorder_carries_graph); "
                   "calc_thermo attaches to the current geometry.  PARTIAL (named _partial, they restate what the model's "
                   "transitions do and rest on the correspondence for content): nonrigid_change_discards_partial and "
                   "rigid_motion_keeps_energies_transforms_or_discards_partial ('rigid' is the setter's two oracle bits, not "
                   "derived from coordinates), copies_share_nothing_partial (value semantics: aliasing is not representable), "
                   "queries_preserve_internal_geometry_partial, invalid_states_rejected_partial.  REFUTED (false of the faithful model and of the code, tied to "
                   "finding Species.__init__|non-positive-multiplicity-accepted): "
                   "nonpositive_multiplicity_at_construction_refuted.  SUPPORTING, not linked to the model: "
                   "rigid_motion_covariance / translation_changes_nothing (pair potentials over Qc: E invariant, G and H "
                   "covariant under rigid motions; that G, H are derivatives of E is not proved)."),
    "level_note": ("The model has identities instead of numbers, value semantics (no aliasing), no Conformer class, no `atoms = None`, "
                   "and a Hessian's own frame atoms are not represented.  Everything numeric and everything about "
                   "aliasing is established on the implementation only, every run: after every step of ~2.5e3 (quick) / ~2.5e4 "
                   "(thorough) exhaustive, targeted and random operation sequences the harness compares error class, present flags, "
                   "labels, edges, multiplicity and freshness bits with the model, where freshness of the real object is decided by "
                   "recomputing E, gradient, Hessian (any unit), frequencies, normal modes and thermochemistry from its CURRENT "
                   "coordinates with an analytic potential, incl. steps of 1e-5..1e-2 A and rotations of 1e-4..1e-2 rad around the "
                   "setter's 1e-8 thresholds; aliasing probes (copy / new_species / conformer of a species and of a conformer, "
                   "conformer members; raw fields, Hessian.atoms identity and derived quantities of the untouched object); a "
                   "Conformer stream; fixed special inputs.  Not exercised: optimise()/calc_thermo() through a real method or "
                   "executor (a mock calculation drives the species' setters), solvents, constraints; in-place edits of the "
                   "species' own Atom objects (s.atoms[i].coord = ...) are outside the statement (the species cannot observe "
                   "them).  Trusted: the analytic oracle, numpy, the construction of rigid vs non-rigid inputs, 83 source pins."),
}
