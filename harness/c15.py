"""C15 — calculations never reuse files or results of a different calculation (DESIGN 6/C15).

Tie between model and code (checked on every run):
  * tr/translate_c15.py regenerates coq/gen/C15_Gen.v from /repo: the list of request fields that
    CalculationExecutor.__str__ / Species.__str__ / Constraints.__str__ concatenate into the hashed
    identity, the skip rule of _execute_external, the selection rule of clean_up, the registry line
    test and the file-name extensions of the wrappers.  The theorems of coq/C15/Props.v are
    re-checked against it.
  * the hand model of _fix_unique / run / clean_up (coq/C15/Model.v) is run against the real
    autode.calculations code on bounded-exhaustive and random request histories in fresh
    directories with the registry ENABLED (tests/conftest.py switches it off) and a scripted fake
    external program; names, registry contents, which requests invoked the program, the parsed
    energies, the directory listing and the content of every output file are compared, also across
    a process restart (fresh interpreters) and for concurrent worker processes.
  * property-level oracles evaluated directly on the implementation give the concrete replays.
"""
import itertools
import json
import multiprocessing as mp
import os
import shutil
import subprocess
import sys
import time
from concurrent.futures import ThreadPoolExecutor
from fractions import Fraction

from common import REPO, VERIF, coq_list, sh, shrink_list, source_pins

TRUSTED_BASE = [
    "Coq 8.16.1 kernel + coqc (vm_compute used for the concrete refutation witnesses and the correspondence terms; no native_compute)",
    "Print Assumptions: every C15 theorem is closed under the global context (no axioms)",
    "translator tr/translate_c15.py (Python ast -> gen/C15_Gen.v; fail-closed; its field list is validated each run by the identity-class table against the real str(executor))",
    "SHA-1 + urlsafe base64 + the separator-free f-string concatenation of executors.py:253-257 are taken to be injective on the field tuples that occur (the model's identity IS the tuple); repr(keywords) is taken to determine the keywords (known exception, not probed: ECP.min_atomic_number is not part of the repr)",
    "the printed identity is one non-empty whitespace-free token; one appended registry line is one record (names containing line breaks are outside the faithful domain of the model; ASCII whitespace only)",
    "hand model coq/C15/Model.v of _fix_unique, CalculationExecutor.run, _execute_external, clean_up and of the directory, tied by the correspondence streams",
    "wrapper glue outside the anchors enters as an oracle: the additional input files a wrapper declares (calc.input.additional_filenames) are passed to the model; input/aux file names are assumed never to coincide with output file names",
    "the scripted external program (writes <name>.out with a tag naming request and operation, and <name>_side.tmp) stands for the real programs; the identity uses the PRINTED constraints (list(set(..)) / dict in insertion order), so equal constraint sets given in another order are different model requests (implementation oracle: constraint-insertion-order finding)",
    "OS: os.listdir/os.remove/open(..., 'a'); multiprocessing fork",
]
ASSUMPTIONS = [
    "appending one line to .autode_calculations is atomic (O_APPEND, single write): stated in Model.v, exercised by the concurrent-worker stream, not proved",
    "theorems about names/reuse assume clean requests (requested name / method name in 7-bit ASCII without blanks); whitespace_name_refuted shows the hypothesis is necessary",
    "cleanup_only_own_files_partial assumes the object declares no stale additional files (o_stale = []); cleanup_stale_declaration_refuted shows the hypothesis is necessary",
    "optimisation_results_same_identity is about optimisation objects run as built; optimisation_late_change_refuted shows it fails for objects changed after construction",
    "all output-file extensions have equal length (proved for the generated ext_table, default '.out')",
]
RULE = ("bounded-exhaustive: every sequence of length 1..d over clusters of 6 operations (request x scripted program outcome x clean-up mode "
        "x new/re-used object), 11 fixed clusters + random ones, quick d = 4 (identity-fields, names-prefix), 2 (opt-trajectory), 3 (others); "
        "thorough d = 6 over 5 operations (identity-fields), 5, 4 (opt-trajectory, substring, keywords, stale-aux, random); universe "
        "names{a, a_xtb, -a, 'a b', ' a'} x methods{xtb, orca, orca+smd} x keywords{k1, k1 k2} x species{base, charge, mult, solvent, cartesian, "
        "distance, distance+4e-4, point charges, species name, composition}; random sequences of length 6-12 over the whole universe; "
        "restart = the same sequence split over two fresh interpreters; concurrent = 4/8 forked workers x 12/50 rounds with pairwise "
        "distinct names; identity-class table over universe pairs; a case is non-trivial when at least two operations compete for one base "
        "name; distinct by the operation tuple")

# Functions of /repo the HAND-WRITTEN model (coq/C15/Model.v) and the observation code of this
# harness were written from and that the translator neither regenerates nor pins completely.
# (Regenerated / exactly pinned by tr/translate_c15.py and therefore absent here: CalculationExecutor.__str__,
# Species.__str__, Constraints.__str__, Constraints.cartesian, _string_without_leading_hyphen,
# CalculationExecutorO._opt_trajectory_name/_opt_trajectory_exists, input/output_filename_for of the wrappers.)
PINS = [("autode/calculations/executors.py", q) for q in (
    "CalculationExecutor.__init__", "CalculationExecutor.run", "CalculationExecutor.generate_input",
    "CalculationExecutor._execute_external", "CalculationExecutor.set_properties", "CalculationExecutor.clean_up",
    "CalculationExecutor.terminated_normally", "CalculationExecutor.output", "CalculationExecutor._fix_unique",
    "_IndirectCalculationExecutor", "CalculationExecutorO.__init__", "CalculationExecutorO.run",
    "CalculationExecutorO.set_properties", "CalculationExecutorO._set_properties_from_optimiser",
    "CalculationExecutorO.terminated_normally")] + [("autode/calculations/calculation.py", q) for q in (
    "Calculation.__init__", "Calculation._executor_for", "Calculation.run", "Calculation.clean_up",
    "Calculation._check_properties_exist", "Calculation.terminated_normally", "Calculation.copy", "Calculation.molecule")] + [
    ("autode/calculations/input.py", "CalculationInput"),
    ("autode/calculations/output.py", "CalculationOutput"), ("autode/calculations/output.py", "BlankCalculationOutput"),
    ("autode/utils.py", "requires_output_to_exist"),
    ("autode/constraints.py", "Constraints.distance"),
    ("autode/opt/optimisers/base.py", "NDOptimiser.print_geometries"), ("autode/opt/optimisers/base.py", "print_geometries_from"),
    # transitive dependencies of the identity string (dunder methods the f-strings call)
] + [("autode/wrappers/keywords/keywords.py", q) for q in (
    "Keywords.__str__", "OptKeywords.__repr__", "HessianKeywords.__repr__", "GradientKeywords.__repr__",
    "SinglePointKeywords.__repr__", "Keyword.__str__", "BasisSet.__repr__", "DispersionCorrection.__repr__",
    "Functional.__repr__", "ImplicitSolventType.__repr__", "RI.__repr__", "WFMethod.__repr__", "ECP.__repr__",
    "MaxOptCycles.__repr__")] + [
    ("autode/calculations/executors.py", "_point_charges_str"),
    ("autode/values.py", "Distance.__repr__"), ("autode/constraints.py", "DistanceConstraints"),
    ("autode/point_charges.py", "PointCharge.__init__"),
    # the execution path of the wrappers that the real-wrapper stream drives
    ("autode/utils.py", "work_in_tmp_dir"), ("autode/utils.py", "run_external"),
    ("autode/wrappers/XTB.py", "XTB.execute"), ("autode/wrappers/ORCA.py", "ORCA.execute"),
    # executors / entry points that are neither modelled nor run (a cache or a registry use added there is not seen)
    ("autode/calculations/executors.py", "CalculationExecutorG"), ("autode/calculations/executors.py", "CalculationExecutorH"),
    ("autode/calculations/executors.py", "CalculationExecutorO._run_single_energy_evaluation"),
    ("autode/calculations/calculation.py", "Calculation.set_output_filename"),
]

SLICE = ["C15/Base.v", "C15/Model.v", "C15/Lemmas.v", "C15/Props.v", "C15/Corr.v", "gen/C15_Gen.v"]
PRE = ("From Coq Require Import List String Ascii Bool ZArith Arith.\nFrom AV.lib Require Import QcInst.\n"
       "From AV.C15 Require Import Base Model Corr.\nFrom AV.gen Require Import C15_Gen.\nImport ListNotations.\n"
       "Open Scope list_scope.\n")

REGISTER = ".autode_calculations"
OUTCOMES = ("ONormal", "OAbnormal", "ONoOutput")
CMODES = ("CNone", "CAuto", "CForce", "CEverything")

# ------------------------------------------------------------------------------------------------
# universe
SPECIES = {
    "base": dict(sname="m", charge=0, mult=1, atoms=("O", "H", "H"), solvent=None, cart=(), dist=(), pcs=None),
    "charge": dict(sname="m", charge=2, mult=1, atoms=("O", "H", "H"), solvent=None, cart=(), dist=(), pcs=None),
    "mult": dict(sname="m", charge=0, mult=3, atoms=("O", "H", "H"), solvent=None, cart=(), dist=(), pcs=None),
    "solvent": dict(sname="m", charge=0, mult=1, atoms=("O", "H", "H"), solvent="water", cart=(), dist=(), pcs=None),
    "cart": dict(sname="m", charge=0, mult=1, atoms=("O", "H", "H"), solvent=None, cart=(0,), dist=(), pcs=None),
    "dist": dict(sname="m", charge=0, mult=1, atoms=("O", "H", "H"), solvent=None, cart=(), dist=(((0, 1), 1.0),), pcs=None),
    "dist2": dict(sname="m", charge=0, mult=1, atoms=("O", "H", "H"), solvent=None, cart=(), dist=(((0, 1), 1.0004),), pcs=None),
    "d15": dict(sname="m", charge=0, mult=1, atoms=("O", "H", "H"), solvent=None, cart=(), dist=(((0, 1), 1.5),), pcs=None),
    "d1504": dict(sname="m", charge=0, mult=1, atoms=("O", "H", "H"), solvent=None, cart=(), dist=(((0, 1), 1.504),), pcs=None),
    "pcs": dict(sname="m", charge=0, mult=1, atoms=("O", "H", "H"), solvent=None, cart=(), dist=(), pcs=((1.0, 0.0, 0.0, 3.0),)),
    "pcs2": dict(sname="m", charge=0, mult=1, atoms=("O", "H", "H"), solvent=None, cart=(), dist=(), pcs=((1.0, 0.0, 0.0, 4.0),)),
    "sname": dict(sname="m2", charge=0, mult=1, atoms=("O", "H", "H"), solvent=None, cart=(), dist=(), pcs=None),
    "comp": dict(sname="m", charge=0, mult=1, atoms=("S", "H", "H"), solvent=None, cart=(), dist=(), pcs=None),
}
# species for optimisations run by autodE's own optimisers on the analytic mock method "surf"
_HE3 = dict(sname="m", charge=0, mult=1, atoms=("He", "He", "He"), solvent=None, cart=(), dist=(), pcs=None)
OSPECIES = {
    "obase": dict(_HE3),
    "odist": dict(_HE3, dist=(((0, 1), 1.0),)),
    "odist2": dict(_HE3, dist=(((0, 1), 1.0004),)),
    "odist3": dict(_HE3, dist=(((0, 1), 1.2),)),
    "opcs": dict(_HE3, pcs=((1.0, 0.0, 0.0, 3.0),)),
    "osname": dict(_HE3, sname="m2"),
    "ocomp": dict(_HE3, atoms=("He", "He", "Ne")),
}
SPECIES.update(OSPECIES)
HE3_XYZ = ((0.0, 0.0, 0.0), (1.1, 0.0, 0.0), (0.3, 1.0, 0.1))
_LONG = "%scf maxiter 250 convergence tight directresetfreq 15 soscfstart 0.00033 end "   # > 60 characters
KWS = {"k1": ("k1",), "k2": ("k1", "k2"), "o1": (), "o2": ("maxopt40",),
       # keywords that differ only far inside one long (block-type) keyword
       "kl1": ("k1", _LONG + "%geom maxiter 100 end"), "kl2": ("k1", _LONG + "%geom maxiter 200 end"),
       # Keyword OBJECTS with the same name and a different string for the method ("F:<name>:<orca string>")
       "kf1": ("F:pbe:PBE",), "kf2": ("F:pbe:BLYP",),
       # keyword objects that differ only in their KIND, with no keyword at all (the xtb defaults) or the same one
       "e_sp": ("KIND:sp",), "e_opt": ("KIND:opt",), "e_grad": ("KIND:grad",), "e_hess": ("KIND:hess",),
       "k1_grad": ("KIND:grad", "k1")}


def spec(name, meth, kw, sp):
    d = dict(SPECIES[sp])
    d.update(name=name, meth=meth, kw=KWS[kw], tag=f"{name}|{meth}|{kw}|{sp}")
    return d


def universe(full):
    names = ["a", "a_xtb", "-a", "a b", " a"]
    U = []
    for n in names:
        for m in ("xtb", "orca", "orca_smd"):
            for k in ("k1", "k2"):
                for s in SPECIES:
                    if s in OSPECIES or (s == "pcs2" and (n != "a" or k != "k1")):
                        continue
                    if m == "orca_smd" and s not in ("base", "solvent"):
                        continue
                    if n in ("a b", " a") and s not in ("base", "charge", "pcs"):
                        continue
                    U.append(spec(n, m, k, s))
    U += [spec("a", "orca", k, "base") for k in ("kl1", "kl2", "kf1", "kf2")] + [spec("a", "xtb", k, "base") for k in ("kl1", "kl2")]
    # a name that CONTAINS another calculation's full name away from its start
    U += [spec("xa", m, k, "base") for m in ("xtb", "orca") for k in ("k1", "k2")]
    # optimisations through CalculationExecutorO (trajectory <name>_opt_trj.zip)
    U += [spec(n, "surf", k, s) for n in ("a", "b") for k in ("o1", "o2") for s in OSPECIES
          if n == "a" or s in ("obase", "odist")]
    for sp in U:
        sp["full"] = full
    return U


def is_full(U):
    return bool(U[0].get("full"))


def conc_universe(nworkers):
    return [spec(f"c{w}", "xtb", k, s) for w in range(nworkers) for k in ("k1", "k2") for s in ("base", "charge")]


def prop_fields(sp):
    """The fields the PROPERTY lists, as plain python values (independent of autodE's strings)."""
    return {
        "requested_name": sp["name"], "method": sp["meth"].split("_")[0], "keywords": tuple(sp["kw"]),
        "species_name": sp["sname"], "composition": tuple(sp["atoms"]), "charge": sp["charge"],
        "multiplicity": sp["mult"], "solvent": sp["solvent"],
        "solvation_model": {"xtb": "gbsa", "orca": "cpcm", "orca_smd": "smd", "surf": None}[sp["meth"]],
        "cartesian_constraints": frozenset(sp["cart"]),
        "distance_constraints": tuple(sorted((tuple(sorted(k)), v) for k, v in sp["dist"])),
        "point_charges": sp["pcs"],
    }


def differing_fields(a, b):
    fa, fb = prop_fields(a), prop_fields(b)
    return [k for k in fa if fa[k] != fb[k]]


def classify(a, b):
    """Input class of a pair of different requests that were treated as one calculation."""
    diff = differing_fields(a, b)
    if any(c.isspace() for c in a["name"] + b["name"]):
        return "whitespace-in-name"
    if diff == ["point_charges"]:
        return "differs-only-in:point_charges"
    if diff == ["keywords"] and len(a["kw"]) == len(b["kw"]) and all(
            x == y or (x.startswith("F:") and y.startswith("F:") and x.split(":")[1] == y.split(":")[1])
            for x, y in zip(a["kw"], b["kw"])):
        return "differs-only-in:keyword-method-string"
    if diff == ["distance_constraints"]:
        da, db = dict(a["dist"]), dict(b["dist"])
        if set(da) == set(db) and all(round(da[k], 3) == round(db[k], 3) for k in da):
            return "differs-only-in:distance_constraints-below-1e-3"
    if diff == ["composition"] and a["atoms"][:100] == b["atoms"][:100]:
        return "differs-only-in:composition-beyond-atom-100"
    if diff == ["requested_name"] and {a["name"], b["name"]} in ({x, "_" + x} for x in (a["name"], b["name"]) if x.startswith("-")):
        return "differs-only-in:requested_name-hyphen-alias"
    return "differs:" + "+".join(diff)


# ------------------------------------------------------------------------------------------------
# implementation side (runs inside worker processes; autode is imported lazily)
_IMPL = {}


def impl_setup():
    if _IMPL:
        return _IMPL
    os.environ.pop("AUTODE_FIXUNIQUE", None)          # the registry must be ENABLED
    if REPO not in sys.path:
        sys.path.insert(0, REPO)
    import autode as ade
    import autode.exceptions as aex
    from autode.atoms import Atom
    from autode.calculations import Calculation
    from autode.methods import ORCA, XTB
    from autode.point_charges import PointCharge
    from autode.wrappers.keywords import SinglePointKeywords
    from autode.wrappers.keywords.implicit_solvent_types import smd
    ade.Config.n_cores = 1
    cur = {"outcome": "ONormal", "j": 0, "k": 0, "invoked": []}
    from autode.wrappers.keywords import Functional

    def fake_execute(self, calc):
        """The scripted external program: writes <name>.out tagged with the index of the request
        it was run for (energy = -(j+1)) and a scratch file <name>_side.tmp, or nothing."""
        cur["invoked"].append(calc.name)
        oc, j = cur["outcome"], cur["j"]
        if oc == "ONoOutput":
            return
        with open(calc.output.filename, "w") as f:
            f.write(output_text(self.name, j, oc == "ONormal", cur["k"]))
        with open(f"{calc.name}_side.tmp", "w") as f:
            print("scratch", file=f)

    _IMPL.update(real_execute={"xtb": XTB.execute, "orca": ORCA.execute}, fake_execute=fake_execute, XTBc=XTB, ORCAc=ORCA,
                 Functional=Functional)
    XTB.execute = fake_execute
    ORCA.execute = fake_execute

    import numpy as np
    import autode.methods as amethods
    from autode.calculations.types import CalculationType as CT
    from autode.hessians import Hessian
    from autode.values import Gradient, PotentialEnergy
    from autode.wrappers.keywords import HessianKeywords, KeywordsSet, MaxOptCycles, OptKeywords
    from autode.wrappers.methods import Method

    class Surf(Method):
        """Analytic three-body harmonic surface: no external io, energy + gradient (+ Hessian), so
        optimisations go through CalculationExecutorO and autodE's own optimisers.  The energy is
        offset by -(j+1), j = index of the request it is run for: the tag of the result."""

        def __init__(self):
            super().__init__(name="surf", keywords_set=KeywordsSet(), doi_list=[])

        def __repr__(self):
            return "Surf"

        @property
        def uses_external_io(self):
            return False

        def implements(self, calculation_type):
            return calculation_type in (CT.energy, CT.gradient, CT.hessian)

        def terminated_normally_in(self, calc):
            return True

        def version_in(self, calc):
            return "1.0"

        @staticmethod
        def eg(X):
            e, g = 0.0, np.zeros_like(X)
            for i, j, k, r0 in ((0, 1, 0.2, 1.0), (1, 2, 0.2, 1.1), (0, 2, 0.2, 1.2)):
                v = X[i] - X[j]
                r = np.linalg.norm(v)
                e += 0.5 * k * (r - r0) ** 2
                g[i] += k * (r - r0) * v / r
                g[j] -= k * (r - r0) * v / r
            return e, g

        def execute(self, calc):
            cur["invoked"].append(calc.name)
            mol = calc.molecule
            X = np.array(mol.coordinates, dtype=float)
            e, g = self.eg(X)
            mol.energy = PotentialEnergy(e - (cur["j"] + 1.0), units="Ha")
            mol.gradient = Gradient(g, units="Ha/ang")
            if isinstance(calc.input.keywords, HessianKeywords):
                x, h = X.flatten(), 1e-5
                H = np.zeros((len(x), len(x)))
                for i in range(len(x)):
                    xp, xm = x.copy(), x.copy()
                    xp[i] += h
                    xm[i] -= h
                    H[i] = (self.eg(xp.reshape(-1, 3))[1] - self.eg(xm.reshape(-1, 3))[1]).flatten() / (2 * h)
                mol.hessian = Hessian(0.5 * (H + H.T), atoms=mol.atoms, units="Ha/ang^2")

    amethods.get_lmethod = lambda: Surf()      # the optimiser's initial low-level Hessian
    from autode.wrappers.keywords import GradientKeywords
    _IMPL.update(Surf=Surf, OptKeywords=OptKeywords, MaxOptCycles=MaxOptCycles, GradKeywords=GradientKeywords,
                 HessKeywords=HessianKeywords)
    _IMPL.update(ade=ade, aex=aex, Atom=Atom, Calculation=Calculation, ORCA=ORCA, XTB=XTB, PointCharge=PointCharge,
                 SPK=SinglePointKeywords, smd=smd, cur=cur)
    return _IMPL


def output_text(prog, j, normal, k):
    """What the scripted program prints for request j in the k-th operation of a history."""
    e = -(j + 1.0)
    lines = [f"C15TAG {j} {'normal' if normal else 'abnormal'} {k}"]
    if prog == "xtb":
        lines += ["  xtb filler line"] * 24 + [f"          | TOTAL ENERGY  {e:.6f} Eh   |"] + ["  xtb filler line"] * 24
        if not normal:
            lines.append("#ERROR! abnormal termination of xtb")
    else:
        lines += [f"FINAL SINGLE POINT ENERGY     {e:.6f}"] + ["  orca filler line"] * 40
        if normal:
            lines.append("                             ****ORCA TERMINATED NORMALLY****")
    return "\n".join(lines) + "\n"


def make_keywords(I, kw):
    out, cls = [], I["SPK"]
    for k in kw:
        if k.startswith("KIND:"):          # the keyword TYPE (possibly with no keyword at all: the xtb defaults)
            cls = {"sp": I["SPK"], "opt": I["OptKeywords"], "grad": I["GradKeywords"], "hess": I["HessKeywords"]}[k[5:]]
        elif k.startswith("F:"):
            _, name, orca = k.split(":")
            out.append(I["Functional"](name, orca=orca))
        else:
            out.append(k)
    return cls(out)


def build(sp):
    """-> (Calculation, molecule) for a request spec: fresh objects every time."""
    I = impl_setup()
    if sp["meth"] == "surf":
        meth = I["Surf"]()
        atoms = [I["Atom"](lab, *xyz) for lab, xyz in zip(sp["atoms"], HE3_XYZ)]
        mol = I["ade"].Molecule(name=sp["sname"], atoms=atoms, charge=sp["charge"], mult=sp["mult"])
        if sp["dist"]:
            mol.constraints.distance = {tuple(k): v for k, v in sp["dist"]}
        kws = I["OptKeywords"]([I["MaxOptCycles"](40)] if sp["kw"] else [])
        pcs = None if sp["pcs"] is None else [I["PointCharge"](q, x, y, z) for q, x, y, z in sp["pcs"]]
        return I["Calculation"](name=sp["name"], molecule=mol, method=meth, keywords=kws, point_charges=pcs), mol
    if sp["meth"] == "xtb":
        meth = I["XTB"]()
    else:
        meth = I["ORCA"]()
        if sp["meth"] == "orca_smd":
            meth.implicit_solvation_type = I["smd"]
    meth.path = sys.executable          # an existing file: is_available is True
    atoms = [I["Atom"](lab, 0.0, 0.0, 1.1 * i) for i, lab in enumerate(sp["atoms"])]
    mol = I["ade"].Molecule(name=sp["sname"], atoms=atoms, charge=sp["charge"], mult=sp["mult"],
                            solvent_name=sp["solvent"])
    if sp["cart"]:
        mol.constraints.cartesian = list(sp["cart"])
    if sp["dist"]:
        mol.constraints.distance = {tuple(k): v for k, v in sp["dist"]}
    pcs = None if sp["pcs"] is None else [I["PointCharge"](q, x, y, z) for q, x, y, z in sp["pcs"]]
    calc = I["Calculation"](name=sp["name"], molecule=mol, method=meth, keywords=make_keywords(I, sp["kw"]), point_charges=pcs)
    return calc, mol


def build_detached(sp):
    """build() in an empty scratch directory: constructing an optimisation executor already
    consults (and writes) the registry of the current directory."""
    import tempfile
    cwd = os.getcwd()
    d = tempfile.mkdtemp(prefix="c15_detached_", dir=os.path.join(VERIF, ".work"))
    os.chdir(d)
    try:
        return build(sp)
    finally:
        os.chdir(cwd)
        shutil.rmtree(d, ignore_errors=True)


def mutate(calc, sp):
    """Turn an existing (already run, or copied) external Calculation into request sp by changing
    its keywords / molecule / constraints in place, as user code does.  Name and method stay."""
    I = impl_setup()
    _, mol = build(dict(sp, pcs=None))
    calc.input.keywords = make_keywords(I, sp["kw"])
    calc.molecule = mol
    calc.input.point_charges = None if sp["pcs"] is None else [I["PointCharge"](q, x, y, z) for q, x, y, z in sp["pcs"]]
    return mol


def real_id(sp, name):
    """str(executor) of the real code for request sp carrying calculation name `name`."""
    calc, _ = build_detached(sp)
    calc._executor.name = name
    return str(calc._executor)


def model_fields(sp):
    """Field values of the model request, read off the implementation objects."""
    calc, mol = build_detached(sp)
    ex = calc._executor
    st = ex.method.implicit_solvation_type
    cart = mol.constraints.cartesian
    dist = mol.constraints.distance
    return {
        "name": sp["name"], "method": ex.method.name, "solvtype": None if st is None else str(st),
        "keywords": repr(ex.input.keywords), "sname": mol.name, "charge": int(mol.charge), "mult": int(mol.mult),
        "atoms": [a.label for a in mol.atoms], "solvent": None if mol.solvent is None else mol.solvent.name,
        "cart": [] if cart is None else [int(i) for i in cart],
        "dist": [] if dist is None else [[int(k[0]), int(k[1]), float(v)] for k, v in dist.items()],
        "pcs": None if ex.input.point_charges is None else
        [[float(p.charge)] + [float(x) for x in p.coord] for p in ex.input.point_charges],
        "base": ex.name,
    }


def read_dir():
    files = sorted(f for f in os.listdir() if f != REGISTER)
    outs = []
    for f in files:
        if f.endswith(".out") or f.endswith(".log"):
            first = open(f).readline().split()
            if len(first) >= 3 and first[0] == "C15TAG":
                outs.append([f, first[2] == "normal", int(first[1])])
            else:
                outs.append([f, False, -1])
        elif f.endswith("_opt_trj.zip"):
            from autode.opt.optimisers.crfo import CRFOptimiser
            e = CRFOptimiser.from_file(f).final_coordinates.e
            outs.append([f, True, -1 if e is None else int(round(-float(e))) - 1])
    reg = []
    if os.path.exists(REGISTER):
        for line in open(REGISTER):
            body = line[:-1] if line.endswith("\n") else line
            nm, _, ident = body.rpartition(" ")
            reg.append([nm, ident])
    return files, outs, reg


REAL_SCRIPT = "#!/bin/sh\necho x >> \"$C15_COUNTER\"\ncat \"$C15_NEXT_OUTPUT\"\n"


def run_ops_impl(U, ops, workdir, start_fresh=True, real=False):
    """Execute ops = [(j, outcome, cmode[@reuse|@late<j0>])] in workdir.
    real=True: the wrappers' own execute() (work_in_tmp_dir + run_external) runs a scripted
    executable instead of the in-process stand-in.
    -> dict(obs, aux, stale, starts, files, outs, reg, snaps)"""
    import tempfile
    I = impl_setup()
    cur, Config, aex = I["cur"], I["ade"].Config, I["aex"]
    if start_fresh:
        shutil.rmtree(workdir, ignore_errors=True)
        os.makedirs(workdir)
    cwd = os.getcwd()
    os.chdir(workdir)
    obs, auxs, stales, snaps, starts = [], [], [], [], []
    objs = {}      # (requested name, method) -> most recent external Calculation object
    old_tmp = tempfile.tempdir
    if real:
        aside = workdir.rstrip("/") + "_prog"
        shutil.rmtree(aside, ignore_errors=True)
        os.makedirs(os.path.join(aside, "tmp"))
        script = os.path.join(aside, "prog.sh")
        with open(script, "w") as f:
            f.write(REAL_SCRIPT)
        os.chmod(script, 0o755)
        os.environ["C15_NEXT_OUTPUT"] = os.path.join(aside, "next_output")
        os.environ["C15_COUNTER"] = os.path.join(aside, "counter")
        tempfile.tempdir = os.path.join(aside, "tmp")
        Config.ll_tmp_dir = os.path.join(aside, "tmp")
        I["XTBc"].execute, I["ORCAc"].execute = I["real_execute"]["xtb"], I["real_execute"]["orca"]
    try:
        for k, (j, oc, cmr) in enumerate(ops):
            cm, _, mark = cmr.partition("@")
            key = (U[j]["name"], U[j]["meth"])
            ext = U[j]["meth"] != "surf"
            if mark == "reuse" and ext and key in objs:
                # an existing object (a copy of it every other time) is changed into this request
                calc = objs[key].copy() if len(obs) % 2 == 0 else objs[key]
                starts.append(calc._executor.name)
                mol = mutate(calc, U[j])
            elif mark.startswith("late") and not ext:
                # an optimisation object is BUILT as request j0 and changed to request j before run()
                calc, mol = build(U[int(mark[4:])])
                mol.constraints.distance = {tuple(kk): v for kk, v in U[j]["dist"]} if U[j]["dist"] else None
                starts.append(None)
            else:
                calc, mol = build(U[j])
                starts.append(None)
            if ext:
                objs[key] = calc
            if real:
                calc.method.path = script
                with open(os.environ["C15_NEXT_OUTPUT"], "w") as f:
                    f.write(output_text(calc.method.name, j, oc == "ONormal", k))
                n0 = len(open(os.environ["C15_COUNTER"]).read()) if os.path.exists(os.environ["C15_COUNTER"]) else 0
            cur.update(outcome=oc, j=j, k=k, invoked=[])
            before = set(os.listdir())
            for f in before:                      # so that every file written by this operation is recognisable
                os.utime(f, ns=(0, 0))
            Config.keep_input_files = cm != "CAuto"
            raised, noinput = False, False
            try:
                calc.run()
            except aex.AutodeException as exc:
                raised, noinput = True, isinstance(exc, aex.NoInputError)
            finally:
                Config.keep_input_files = True
            listing_after_run = set(os.listdir())
            written = {f for f in listing_after_run if f not in before or os.stat(f).st_mtime_ns != 0}
            declared = list(dict.fromkeys(calc.input.additional_filenames))
            # written in this run / still declared from an earlier run of the object (a file that is gone
            # again was written and removed by run()'s own clean-up unless NoInputError says it never existed)
            aux = [f for f in declared if f in written or (f not in listing_after_run and f not in before and not noinput)]
            stale = [f for f in declared if f not in aux]
            is_opt = not ext
            outf = f"{calc._executor.name}_opt_trj.zip" if is_opt else calc.output.filename
            out_tag = None
            if not is_opt and outf is not None and os.path.exists(outf):
                out_tag = open(outf).readline().split()
            if cm in ("CForce", "CEverything"):
                calc.clean_up(force=True, everything=(cm == "CEverything"))
            e = mol.energy
            en = None if e is None else int(round(-float(e))) - 1
            if real:
                n1 = len(open(os.environ["C15_COUNTER"]).read()) if os.path.exists(os.environ["C15_COUNTER"]) else 0
                invoked = n1 > n0
            else:
                invoked = bool(cur["invoked"])
            obs.append([calc._executor.name, invoked, en, raised])
            auxs.append(aux)
            stales.append(stale)
            snaps.append(dict(before=sorted(before), after_run=sorted(listing_after_run), after=sorted(os.listdir()),
                              out=outf, inputs=([] if is_opt else list(calc.input.filenames)), written=sorted(written),
                              out_tag=out_tag, stale=stale, noinput=noinput))
        files, outs, reg = read_dir()
    finally:
        os.chdir(cwd)
        if real:
            tempfile.tempdir = old_tmp
            Config.ll_tmp_dir = None
            I["XTBc"].execute = I["ORCAc"].execute = I["fake_execute"]
            shutil.rmtree(aside, ignore_errors=True)
    return dict(obs=obs, aux=auxs, stale=stales, files=files, outs=outs, reg=reg, snaps=snaps, starts=starts)


# ------------------------------------------------------------------------------------------------
# property-level oracle on an executed sequence (no model involved)
def oracle_sequence(U, ops, res):
    """-> list of (key, what): violations of the property's clauses seen in this executed history.
    Bookkeeping is the harness's own (what the scripted program wrote, which calculation created
    which file); nothing of autodE's identity strings is used."""
    bad = []
    owner = {}           # calculation name -> index of the first request that got it
    produced = {}        # output file -> (normal, j) as written by the scripted program
    creator = {}         # file name -> calculation name that (re)wrote it last
    first_name = {}      # request index -> the name it got when first issued
    first_j = {}
    late_names = set()   # names first taken by an optimisation object that was changed after it was built
    first_start = {}     # request -> name carried by the re-used object it was first issued through (None: new object)
    ws_seen = False
    for k, ((j, oc, cm), ob, sn) in enumerate(zip(ops, res["obs"], res["snaps"])):
        name, invoked, en, raised = ob
        cm, _, mark = cm.partition("@")
        late = mark.startswith("late")
        sp = U[j]
        rk = tuple(sorted((a, repr(b)) for a, b in prop_fields(sp).items()))     # the request, by the property's fields
        ws = any(c.isspace() for c in sp["name"])
        ws_seen = ws_seen or ws
        if sn["out"] is None:
            # an executor without files of its own (numerical Hessian / gradient executors never consult
            # the registry and write nothing under their name; or the run failed before a file name was
            # fixed): its name is not used for any file, so there is nothing to share
            continue
        st_k = res["starts"][k] if "starts" in res else None
        first_start.setdefault(rk, st_k)
        first_j.setdefault(rk, j)
        if not late and first_name.setdefault(rk, name) != name:
            via_obj = st_k is not None or first_start[rk] is not None
            key = "same-request|different-name" + ("|whitespace-in-history" if ws_seen else
                                                   "|through-reused-object" if via_obj else
                                                   "|constraint-insertion-order" if first_j[rk] != j else "")
            bad.append((key, f"op {k}: request {sp['tag']} was named {first_name[rk]!r} before "
                             f"(as {U[first_j[rk]]['tag']}) and is named {name!r} now"))
        if name in owner and owner[name] != j:
            diff = differing_fields(U[owner[name]], sp)
            if diff:
                bad.append(("shared-name|" + ("optimisation-changed-after-construction" if late or name in late_names
                                              else classify(U[owner[name]], sp)),
                            f"op {k}: request {sp['tag']} got calculation name {name!r}, already owned by "
                            f"{U[owner[name]]['tag']} (they differ in {diff})"))
        if name not in owner and late:
            late_names.add(name)
        owner.setdefault(name, j)
        outf = sn["out"]
        if outf is None:                 # the calculation failed before any file name was fixed
            continue
        # NoInputError: a declared input file is missing, nothing was run and nothing parsed (files may
        # still have been removed by an explicit clean-up: checked below)
        if not (sn.get("noinput") and not invoked and en is None):
            if sp["meth"] != "surf" and outf != name + ".out":
                bad.append(("output-file|not-named-after-the-calculation",
                            f"op {k}: {sp['tag']} is named {name!r} but reads/writes the output file {outf!r}"))
            if not invoked and (outf not in produced or not produced[outf][0]):
                bad.append(("reuse|output-not-normal", f"op {k}: {sp['tag']} skipped the external program although {outf} "
                            + ("did not exist" if outf not in produced else "had not terminated normally")))
            if sp["meth"] == "surf":
                oc = "ONormal"               # the optimiser always saves its trajectory
            if invoked and oc != "ONoOutput":
                produced[outf] = (oc == "ONormal", j)
                want = ["C15TAG", str(j), "normal" if oc == "ONormal" else "abnormal", str(k)]
                if sp["meth"] != "surf" and sn.get("out_tag") != want:
                    bad.append(("regenerated-output|not-the-file-just-written",
                                f"op {k}: {sp['tag']}: the program was run and wrote {' '.join(want)!r} but {outf} holds "
                                f"{' '.join(sn.get('out_tag') or ['nothing'])!r}"))
            if en is not None:
                src = produced.get(outf)
                if src is None or src[1] != en:
                    bad.append(("parsed|not-own-file", f"op {k}: {sp['tag']}: parsed energy tag {en} is not the content of {outf} ({src})"))
                else:
                    diff = differing_fields(U[en], sp)
                    if diff:
                        bad.append(("reused-result|" + ("optimisation-changed-after-construction" if late or name in late_names
                                                        else classify(U[en], sp)),
                                    f"op {k}: {sp['tag']} took its energy from the output of {U[en]['tag']} (they differ in {diff})"))
        # files this calculation really (re)wrote in this operation (by modification time)
        mine = set(sn["written"])
        for f in mine:
            if f is not None and f != REGISTER:
                creator[f] = name
        for f in set(sn["before"]) | set(sn["after_run"]):
            if f not in sn["after"] and f != REGISTER and creator.get(f, name) != name:
                bad.append(("clean_up|foreign-file-deleted|" + cm + ("|still-declared-by-reused-object" if f in sn.get("stale", []) else
                                                                     "|name-is-prefix" if f.startswith(name) else "|name-is-not-a-prefix"),
                            f"op {k}: clean-up of {name!r} (mode {cm}) deleted {f!r}, "
                                                             f"a file of calculation {creator[f]!r}"))
        for f in list(produced):
            if f not in sn["after"]:
                del produced[f]
        for f in list(creator):
            if f not in sn["after"]:
                del creator[f]
    return bad


# ------------------------------------------------------------------------------------------------
# Coq literals
def cs(s):
    if all(32 <= ord(c) < 127 and c != '"' for c in s):
        return f'(s2l "{s}")'
    return "(bytes_of_codes [" + "; ".join(str(b) for b in s.encode("utf-8")) + "])"


class Interner:
    """Literals are slow to elaborate in Coq: every distinct string / operation / observation /
    registry line / output entry becomes one definition of the preamble, terms only name them."""

    def __init__(self):
        self.tab, self.sub = {}, {}

    def __call__(self, s):
        if s not in self.tab:
            self.tab[s] = f"nm{len(self.tab)}"
        return self.tab[s]

    def t(self, typ, text):
        k = (typ, text)
        if k not in self.sub:
            self.sub[k] = f"t{len(self.sub)}"
        return self.sub[k]

    def defs(self):
        return ("".join(f"Definition {v} : str := Eval vm_compute in {cs(k)}.\n" for k, v in self.tab.items()) +
                "".join(f"Definition {v} : {typ} := {text}.\n" for (typ, text), v in self.sub.items()))


def crat(x):
    f = Fraction(*float(x).as_integer_ratio())
    return f"(({f.numerator})%Z, {f.denominator}%positive)"


def copt(x, f):
    return "None" if x is None else f"(Some {f(x)})"


def creq(m):
    sp = (f"(mkSpecies {cs(m['sname'])} ({m['charge']})%Z ({m['mult']})%Z {coq_list([cs(a) for a in m['atoms']])} "
          f"{copt(m['solvent'], cs)} {coq_list([str(i) for i in m['cart']])} "
          f"{coq_list([f'({i}, {j}, {crat(v)})' for i, j, v in m['dist']])})")
    pcs = copt(m["pcs"], lambda l: coq_list(["(" + ", ".join(crat(x) for x in p) + ")" for p in l]))
    return f"(mkReq {cs(m['name'])} {cs(m['method'])} {copt(m['solvtype'], cs)} {cs(m['keywords'])} {sp} {pcs})"


def cbool(b):
    return "true" if b else "false"


def cnat_opt(x):
    return "None" if x is None else f"(Some {x})"


CORR_DEFS = ("Definition H (j : nat) (oc : outcome) (cm : cmode) (aux : list str) (st : option str) (stale : list str) : hgop := HExt (j, oc, cm, aux, st, stale).\n"
             "Definition O (n : str) (i : bool) (e : option nat) (r : bool) : hobs := (n, i, e, r).\n"
             "Definition L (n : str) (c : nat) : str * nat := (n, c).\n"
             "Definition F (n : str) (b : bool) (c : nat) : str * bool * nat := (n, b, c).\n")


def term_seq(nm, ops, res, cut=None, uname="U"):
    def one(j, oc, cm, aux, st, stale):
        if oc == "OPT":
            mark = cm.partition("@")[2]
            return f"HOptLate {mark[4:]} {j}" if mark.startswith("late") else f"HOpt {j}"
        return (f"H {j} {oc} {cm.partition('@')[0]} {coq_list([nm(a) for a in aux])} "
                f"{'None' if st is None else '(Some ' + nm(st) + ')'} {coq_list([nm(a) for a in stale])}")
    hl = [nm.t("hgop", one(j, oc, cm, aux, st, stale))
          for (j, oc, cm), aux, st, stale in zip(ops, res["aux"], res["starts"], res["stale"])]
    late_js = {int(cm.partition("@")[2][4:]) for _, _, cm in ops if cm.partition("@")[2].startswith("late")}
    eobs = coq_list([nm.t("hobs", f"O {nm(n)} {cbool(i)} {cnat_opt(e)} {cbool(r)}") for n, i, e, r in res["obs"]])
    ereg = coq_list([nm.t("(str * nat)%type", f"L {nm(n)} {c}") for n, c in res["regc"]])
    efiles = coq_list([nm(f) for f in res["files"]])
    eouts = coq_list([nm.t("(str * bool * nat)%type", f"F {nm(f)} {cbool(n)} {j if j >= 0 else 999}") for f, n, j in res["outs"]])
    js = coq_list([str(j) for j in sorted({o[0] for o in ops} | late_js)])
    if cut is None:
        return f"chk_seq {uname} {js} {coq_list(hl)} {eobs} {ereg} {efiles} {eouts}"
    return f"chk_seq_restart {uname} {js} {coq_list(hl[:cut])} {coq_list(hl[cut:])} {eobs} {ereg} {efiles} {eouts}"


_EXECS = {}


def executors_for(U):
    """One real executor per universe element (built once, inherited by forked workers); only
    its .name is changed before str() is taken."""
    key = tuple(sp["tag"] for sp in U)
    if key not in _EXECS:
        _EXECS[key] = [build_detached(sp)[0]._executor for sp in U]
    return _EXECS[key]


class Canon:
    """registry identity string -> first universe index whose REAL identity under that name equals it"""

    def __init__(self, U):
        self.ex, self.cache = executors_for(U), {}

    def ids(self, name):
        if name not in self.cache:
            out = []
            for e in self.ex:
                e.name = name
                out.append(str(e))
            self.cache[name] = out
        return self.cache[name]

    def __call__(self, name, ident, js=None):
        ids = self.ids(name)
        for j in (range(len(ids)) if js is None else js):
            if ids[j] == ident:
                return j
        return 999


# ------------------------------------------------------------------------------------------------
# worker entry points (multiprocessing)
IMPL_TIMEOUT = [240]
SEQ_TIMEOUT = 20.0          # seconds for ONE request sequence (normally a few milliseconds)


class ImplementationHang(Exception):
    pass


def _alarm(signum, frame):
    raise ImplementationHang("sequence timeout")


def _job_sequences(args):
    import signal
    U, seqs, workdir, real = args
    out = []
    canon = Canon(U)
    signal.signal(signal.SIGALRM, _alarm)
    for k, ops in enumerate(seqs):
        signal.setitimer(signal.ITIMER_REAL, SEQ_TIMEOUT)
        try:
            res = run_ops_impl(U, ops, os.path.join(workdir, f"s{k}"), real=real)
        except ImplementationHang:
            # one concrete non-terminating history is enough; the rest of this chunk is skipped
            out.append({"hang": True})
            out += [{"skipped": True}] * (len(seqs) - k - 1)
            shutil.rmtree(os.path.join(workdir, f"s{k}"), ignore_errors=True)
            break
        finally:
            signal.setitimer(signal.ITIMER_REAL, 0)
        js = sorted({o[0] for o in ops} | {int(o[2].partition("@")[2][4:]) for o in ops if o[2].partition("@")[2].startswith("late")})
        res["regc"] = [[n, canon(n, i, js)] for n, i in res["reg"]]
        res["oracle"] = oracle_sequence(U, ops, res)
        shutil.rmtree(os.path.join(workdir, f"s{k}"), ignore_errors=True)
        out.append(res)
    return out


def run_sequences(ctx, U, seqs, label, nproc=None, real=False):
    nproc = max(1, min(nproc or 16, os.cpu_count() or 4, len(seqs)))
    idxs = [list(range(i, len(seqs), nproc)) for i in range(nproc)]
    jobs = [(U, [seqs[k] for k in ix], os.path.join(ctx.work, f"{label}_{i}"), real) for i, ix in enumerate(idxs)]
    with mp.get_context("fork").Pool(nproc) as pool:
        try:
            parts = pool.map_async(_job_sequences, jobs).get(timeout=IMPL_TIMEOUT[0])
        except mp.TimeoutError:
            pool.terminate()
            raise ImplementationHang(f"stream {label}: the implementation did not finish {len(seqs)} request "
                                     f"sequences within {IMPL_TIMEOUT[0]} s (non-terminating registry loop?)")
    res = [None] * len(seqs)
    for ix, part in zip(idxs, parts):
        for k, r in zip(ix, part):
            res[k] = r
    return res


def _conc_worker(w, U, schedule, workdir, barrier, q):
    os.chdir(workdir)
    impl_setup()
    names = []
    for rnd, j in enumerate(schedule):
        calc, _ = build(U[j])
        barrier.wait()
        calc.generate_input()              # _fix_unique + input file, all workers at once
        names.append(calc._executor.name)
        barrier.wait()                     # parent reads the registry here
        barrier.wait()
    q.put((w, names))


# ------------------------------------------------------------------------------------------------
def mkop(U, j, oc, cm):
    """optimisation requests have no scripted program outcome and no clean-up mode"""
    return (j, "OPT", "CNone") if U[j]["meth"] == "surf" else (j, oc, cm)


def fixed_clusters(U):
    idx = {sp["tag"]: j for j, sp in enumerate(U)}

    def o(tag, oc="ONormal", cm="CNone"):
        return mkop(U, idx[tag], oc, cm)
    return [
        ("identity-fields", [o("a|xtb|k1|base"), o("a|xtb|k2|base"), o("a|xtb|k1|charge"), o("a|xtb|k1|pcs"),
                             o("a|xtb|k1|base", "OAbnormal"), o("a|xtb|k1|base", "ONormal", "CEverything")]),
        ("orca-solvation", [o("a|orca|k1|base"), o("a|orca|k1|solvent"), o("a|orca_smd|k1|solvent"),
                            o("a|orca|k1|base", "ONoOutput"), o("a|orca|k1|mult", "OAbnormal", "CForce"),
                            o("a|orca|k1|base", "ONormal", "CAuto")]),
        ("names-prefix", [o("a|xtb|k1|base"), o("a|xtb|k2|base"), o("a_xtb|xtb|k1|base"), o("-a|xtb|k1|base"),
                          o("a|xtb|k1|base", "ONormal", "CEverything"), o("a_xtb|xtb|k1|base", "OAbnormal", "CEverything")]),
        ("constraints", [o("a|xtb|k1|cart"), o("a|xtb|k1|dist"), o("a|xtb|k1|dist2"), o("a|xtb|k1|d15"),
                         o("a|xtb|k1|d1504"), o("a|xtb|k1|dist", "OAbnormal", "CEverything")]),
        # an existing Calculation object (or a copy) is changed into another request and run again
        ("object-reuse", [o("a|xtb|k1|base"), o("a|xtb|k2|base", "ONormal", "CNone@reuse"),
                          o("a|xtb|k1|charge", "ONormal", "CNone@reuse"), o("a|xtb|k1|dist", "ONormal", "CForce@reuse"),
                          o("a|xtb|k1|base", "OAbnormal", "CNone@reuse"), o("a|xtb|k2|base", "ONormal", "CEverything")]),
        ("opt-trajectory", [o("a|surf|o1|obase"), o("a|surf|o1|odist"), o("a|surf|o1|odist3"), o("a|surf|o2|odist"),
                            o("a|surf|o1|opcs"),
                            # built as the 1.0 A request, constraint changed to 1.2 A before run()
                            (idx["a|surf|o1|odist3"], "OPT", f"CNone@late{idx['a|surf|o1|odist']}")]),
        ("keywords", [o("a|orca|kl1|base"), o("a|orca|kl2|base"), o("a|orca|kf1|base"), o("a|orca|kf2|base"),
                      o("a|xtb|kl1|base"), o("a|xtb|kl2|base", "OAbnormal")]),
        # a re-used object keeps DECLARING the additional files of the calculation it was before
        ("stale-aux", [o("a|xtb|k1|pcs"), o("a|xtb|k2|pcs", "ONormal", "CForce@reuse"), o("a|xtb|k1|pcs2", "ONormal", "CNone@reuse"),
                       o("a|xtb|k1|base", "ONormal", "CEverything@reuse"), o("a|xtb|k2|pcs", "OAbnormal", "CNone@reuse"),
                       o("a|xtb|k1|pcs", "ONormal", "CNone")]),
        ("substring", [o("xa|xtb|k1|base"), o("a|xtb|k1|base"), o("a|xtb|k1|base", "ONormal", "CEverything"),
                       o("xa|xtb|k1|base", "ONormal", "CEverything"), o("a|xtb|k2|base"), o("xa|xtb|k2|base", "OAbnormal")]),
        # " a": the line is read back under the key "a_xtb" and OVERWRITES the entry of calculation a (register[k] = v)
        ("whitespace", [o("a b|xtb|k1|base"), o("a b|xtb|k2|base"), o("a|xtb|k1|base"), o(" a|xtb|k2|base"),
                        o("a b|xtb|k1|base", "ONormal", "CEverything"), o("a|xtb|k2|base", "ONoOutput", "CAuto")]),
    ]


def random_cluster(ctx, U, size=6, cheap=False):
    base = ctx.rng.choice([sp for sp in U if not (cheap and sp["meth"] == "surf")])
    same = [j for j, sp in enumerate(U) if sp["name"] == base["name"] and sp["meth"].split("_")[0] == base["meth"].split("_")[0]]
    ops = []
    while len(ops) < size:
        j = ctx.rng.choice(same) if ctx.rng.random() < 0.75 else ctx.rng.randrange(len(U))
        op = mkop(U, j, ctx.rng.choices(OUTCOMES, weights=(6, 2, 1))[0],
                  ctx.rng.choices(CMODES, weights=(5, 1, 1, 2))[0] + ("@reuse" if ctx.rng.random() < 0.3 else ""))
        if op not in ops:
            ops.append(op)
    return ops


def all_sequences(cluster, depth):
    seqs = []
    for d in range(1, depth + 1):
        seqs += [list(t) for t in itertools.product(cluster, repeat=d)]
    return seqs


def nontrivial(U, ops):
    bases = [(U[j]["name"], U[j]["meth"].split("_")[0]) for j, _, _ in ops]
    return len(bases) != len(set(bases))


# ------------------------------------------------------------------------------------------------
KNOWN_KEY_OF = {   # general-oracle key -> stable finding key (call site | input class)
    "shared-name|differs-only-in:point_charges": "CalculationExecutor.__str__|point-charges-not-hashed",
    "reused-result|differs-only-in:point_charges": "CalculationExecutor.__str__|point-charges-not-hashed",
    "shared-name|differs-only-in:distance_constraints-below-1e-3": "Constraints.__str__|distances-rounded-before-hashing",
    "reused-result|differs-only-in:distance_constraints-below-1e-3": "Constraints.__str__|distances-rounded-before-hashing",
    "shared-name|differs-only-in:composition-beyond-atom-100": "Species.__str__|atoms-beyond-100-not-hashed",
    "reused-result|differs-only-in:composition-beyond-atom-100": "Species.__str__|atoms-beyond-100-not-hashed",
    "shared-name|differs-only-in:requested_name-hyphen-alias": "_string_without_leading_hyphen|hyphen-alias",
    "reused-result|differs-only-in:requested_name-hyphen-alias": "_string_without_leading_hyphen|hyphen-alias",
    "shared-name|whitespace-in-name": "_fix_unique|registry-line-with-whitespace-name-ignored",
    "reused-result|whitespace-in-name": "_fix_unique|registry-line-with-whitespace-name-ignored",
    "same-request|different-name|whitespace-in-history": "_fix_unique|registry-line-with-whitespace-name-ignored",
    "clean_up|foreign-file-deleted|CEverything|name-is-prefix": "clean_up|prefix-match-deletes-other-calculation",
    "same-request|different-name|through-reused-object": "_fix_unique|reused-object-suffixes-its-current-name",
    "shared-name|differs-only-in:keyword-method-string": "CalculationExecutor.__str__|keyword-method-string-not-hashed",
    "reused-result|differs-only-in:keyword-method-string": "CalculationExecutor.__str__|keyword-method-string-not-hashed",
    "shared-name|optimisation-changed-after-construction": "CalculationExecutorO.run|name-fixed-at-construction-not-at-run",
    "reused-result|optimisation-changed-after-construction": "CalculationExecutorO.run|name-fixed-at-construction-not-at-run",
    "clean_up|foreign-file-deleted|CForce|still-declared-by-reused-object": "clean_up|reused-object-deletes-files-it-still-declares",
    "clean_up|foreign-file-deleted|CAuto|still-declared-by-reused-object": "clean_up|reused-object-deletes-files-it-still-declares",
    "clean_up|foreign-file-deleted|CEverything|still-declared-by-reused-object": "clean_up|reused-object-deletes-files-it-still-declares",
    "same-request|different-name|constraint-insertion-order": "Constraints.__str__|constraint-insertion-order-dependent",
}
MAX_REPORTS = 10


def report_oracle(ctx, U, ops, fails, stream, seen):
    """Turn oracle failures of one executed sequence into findings (first of each key only)."""
    for key, what in fails:
        fkey = KNOWN_KEY_OF.get(key, key)
        seen.setdefault(fkey, 0)
        seen[fkey] += 1
        if seen[fkey] > 1:
            continue
        if len(ctx.violations) >= MAX_REPORTS and fkey not in ctx.known_keys():
            seen["(further distinct failure classes not written as replays)"] = seen.get("(further distinct failure classes not written as replays)", 0) + 1
            continue
        ctx.finding(fkey, what, {"kind": "sequence", "stream": stream,
                                 "ops": [[U[j]["tag"], oc, cm] for j, oc, cm in ops],
                                 "universe_full": is_full(U), "oracle_key": key})


def targeted_oracles(ctx, seen, only=None):
    """Dedicated minimal histories for every clause the model refutes (and the repr probe)."""
    big_a = dict(SPECIES["base"], atoms=tuple(["H"] * 100 + ["He"]))
    big_b = dict(SPECIES["base"], atoms=tuple(["H"] * 100 + ["Be"]))
    TU = [spec("a", "xtb", "k1", "base"), spec("a", "xtb", "k1", "pcs"),              # 0 1
          spec("a", "xtb", "k1", "dist"), spec("a", "xtb", "k1", "dist2"),           # 2 3
          dict(big_a, name="a", meth="xtb", kw=KWS["k1"], tag="a|xtb|k1|H100He"),    # 4
          dict(big_b, name="a", meth="xtb", kw=KWS["k1"], tag="a|xtb|k1|H100Be"),    # 5
          spec("-a", "xtb", "k1", "base"), spec("_-a", "xtb", "k1", "base"),         # 6 7
          spec("a b", "xtb", "k1", "base"), spec("a b", "xtb", "k2", "base"),        # 8 9
          spec("a", "xtb", "k2", "base"),                                            # 10
          spec("a", "surf", "o1", "odist"), spec("a", "surf", "o1", "odist3"),       # 11 12
          spec("xa", "xtb", "k1", "base"),                                           # 13
          spec("a", "xtb", "k1", "charge"),                                          # 14
          spec("a", "xtb", "k1", "d15"), spec("a", "xtb", "k1", "d1504")]            # 15 16
    for va, vb in ((2.123, 2.124), (10.21, 10.23), (1.0, 1.000004)):                 # 17 18, 19 20, 21 22
        for v in (va, vb):
            TU.append(dict(spec("a", "xtb", "k1", "dist"), dist=(((0, 1), v),), tag=f"a|xtb|k1|dist={v}"))
    big = [(0.1 * (i % 7) - 0.3, 3.0 + 0.5 * (i % 11), -2.0 + 0.37 * (i % 13), 4.0 + 0.01 * i) for i in range(260)]
    big2 = list(big)
    big2[130] = (big[130][0] + 0.5,) + big[130][1:]
    TU += [spec("a", "xtb", "k2", "pcs"),                                                     # 23
           spec("a", "orca", "kf1", "base"), spec("a", "orca", "kf2", "base"),                # 24 25
           spec("a", "orca", "kl1", "base"), spec("a", "orca", "kl2", "base"),                # 26 27
           dict(spec("a", "xtb", "k1", "base"), pcs=tuple(big), tag="a|xtb|k1|260 point charges"),       # 28
           dict(spec("a", "xtb", "k1", "base"), pcs=tuple(big2), tag="a|xtb|k1|260 point charges, #130 changed"),  # 29
           spec("a", "xtb", "k1", "pcs2"),                                                    # 30
           dict(spec("a", "xtb", "k1", "dist"), dist=(((0, 1), 1.0), ((1, 2), 1.1)), tag="a|xtb|k1|dist{01,12}"),  # 31
           dict(spec("a", "xtb", "k1", "dist"), dist=(((1, 2), 1.1), ((0, 1), 1.0)), tag="a|xtb|k1|dist{12,01}")]  # 32
    N = ("ONormal", "CNone")
    hist = {
        "point-charges": [(0, *N), (1, *N)], "distance-rounding": [(2, *N), (3, *N)], "atoms>100": [(4, *N), (5, *N)],
        "hyphen": [(6, *N), (7, *N)], "whitespace": [(8, *N), (9, *N)],
        "prefix-cleanup": [(0, *N), (10, *N), (0, "ONormal", "CEverything")],
        # optimisations with different constraint values under one requested name, then the first again
        "opt-trajectory": [(11, "OPT", "CNone"), (12, "OPT", "CNone"), (11, "OPT", "CNone")],
        # a run Calculation is copied / re-used, changed into a different calculation and run again
        "object-reuse": [(0, *N), (10, "ONormal", "CNone@reuse"), (14, "ONormal", "CNone@reuse")],
        # ... and changed BACK into the first calculation: the identical request is renamed a_xtb00
        "reused-object-renamed": [(0, *N), (10, "ONormal", "CNone@reuse"), (0, "ONormal", "CNone@reuse")],
        # constraints that differ by >= 0.001 A but only beyond the third significant figure
        "distance-3-figures": [(15, *N), (16, *N), (17, *N), (18, *N), (19, *N), (20, *N)],
        "distance-below-1e-5": [(21, *N), (22, *N)],
        # an optimisation object built as the 1.0 A request and changed to 1.2 A before run()
        "opt-changed-after-construction": [(11, "OPT", "CNone"), (12, "OPT", "CNone@late11")],
        # a re-used xtb object with point charges still declares the previous calculation's aux files
        "stale-declared-files": [(1, *N), (23, "ONormal", "CForce@reuse")],
        "keyword-method-string": [(24, *N), (25, *N)],
        "long-keywords": [(26, *N), (27, *N)],
        "point-charge-sets": [(1, *N), (30, *N), (28, *N), (29, *N)],
        "constraint-insertion-order": [(31, *N), (32, *N)],
        # `xa_xtb.*` contains the full name `a_xtb` away from its start: cleaning `a` must keep it
        "substring-cleanup": [(13, *N), (0, *N), (0, "ONormal", "CEverything"), (13, *N)],
    }
    if only is not None:
        hist = {k: v for k, v in hist.items() if k == only}
    reproduced = {}
    allres = run_sequences(ctx, TU, list(hist.values()), "targeted", nproc=4)
    for (label, ops), res in zip(hist.items(), allres):
        if res.get("hang") or res.get("skipped"):
            reproduced[label] = None
            continue
        fails = res["oracle"]
        ctx.count("impl-oracle", ("targeted", label), nontrivial=True,
                  sample={"history": [[TU[j]["tag"], oc, cm] for j, oc, cm in ops], "names": [o[0] for o in res["obs"]],
                          "invoked": [o[1] for o in res["obs"]]})
        reproduced[label] = bool(fails)
        report_oracle(ctx, TU, ops, fails, "targeted:" + label, seen)
    return reproduced


# ------------------------------------------------------------------------------------------------
def correspondence_sequences(ctx, U, full, seen, nm):
    mods = [model_fields(sp) for sp in U]
    pre = PRE + CORR_DEFS + "Definition U : list request :=\n  [" + ";\n   ".join(creq(m) for m in mods) + "].\n"
    terms, descr = [], []

    # (a) translator / identity validation: identity classes and base names on the universe
    probe_names = ["a_xtb", "zz", "a b_orca"]
    canon = Canon(U)                      # built before forking: the workers inherit the executors
    ids = {n: canon.ids(n) for n in probe_names}
    pairs = [(i, j) for i in range(len(U)) for j in range(i + 1, len(U))
             if U[i]["name"] == U[j]["name"] and U[i]["kw"] == U[j]["kw"]]
    if not full:
        pairs = [p for p in pairs if p[0] < 70] + ctx.rng.sample(pairs, min(300, len(pairs)))
    for i, j in pairs:
        n = probe_names[(i + j) % len(probe_names)]
        terms.append(f"chk_same_id U {nm(n)} {i} {j} {cbool(ids[n][i] == ids[n][j])}")
        descr.append({"kind": "identity-class", "i": U[i]["tag"], "j": U[j]["tag"], "name": n,
                      "impl_same": ids[n][i] == ids[n][j]})
        ctx.count("identity-classes", (i, j, n), nontrivial=True, sample=descr[-1])
    for j, m in enumerate(mods):
        terms.append(f"chk_base U {j} {nm(m['base'])}")
        descr.append({"kind": "base-name", "request": U[j]["tag"], "impl": m["base"]})
        ctx.count("identity-classes", ("base", j), nontrivial=(U[j]["name"].startswith("-")))

    # (b) bounded-exhaustive clusters and random sequences
    depth = 4 if not full else 5
    clusters = fixed_clusters(U)
    nrand = 2 if not full else 6
    for k in range(nrand):
        clusters.append((f"random{k}", random_cluster(ctx, U, cheap=not full)))
    seqs, sinfo = [], []
    qd = {"identity-fields": 4, "names-prefix": 4, "object-reuse": 3, "opt-trajectory": 2}   # optimisations cost ~0.1 s each
    td = {"identity-fields": 6, "names-prefix": 5, "orca-solvation": 5, "constraints": 5, "whitespace": 5, "object-reuse": 5}
    for ci, (label, cl) in enumerate(clusters):
        d = td.get(label, 4) if full else qd.get(label, 3)
        if d == 6:
            cl = cl[:4] + cl[5:]                         # depth 6 over 5 operations
        for s in all_sequences(cl, d):
            seqs.append(s)
            sinfo.append(("exhaustive:" + label, d))
    nlong = 150 if not full else 1500
    for _ in range(nlong):
        ln = ctx.rng.randint(6, 12)
        cl = random_cluster(ctx, U, size=5, cheap=not full)
        seqs.append([ctx.rng.choice(cl) if ctx.rng.random() < 0.8 else
                     mkop(U, ctx.rng.randrange(len(U)), ctx.rng.choice(OUTCOMES), ctx.rng.choice(CMODES)) for _ in range(ln)])
        sinfo.append(("random-long", ln))
    ctx.log(f"running {len(seqs)} request sequences on the implementation ({len(clusters)} clusters)")
    t0 = time.time()
    results = run_sequences(ctx, U, seqs, "seq")
    ctx.log(f"  implementation done in {time.time() - t0:.1f}s")
    for ops, res, (stream, d) in zip(seqs, results, sinfo):
        if res.get("skipped"):
            continue
        if res.get("hang"):
            seen["hang"] = seen.get("hang", 0) + 1
            if seen["hang"] == 1:
                ctx.finding("_fix_unique|does-not-terminate",
                            f"the request history did not finish within {SEQ_TIMEOUT:.0f} s (normally milliseconds): non-terminating name search",
                            {"kind": "sequence", "stream": stream, "ops": [[U[j]["tag"], oc, cm] for j, oc, cm in ops],
                             "universe_full": is_full(U), "oracle_key": "hang"})
            continue
        ctx.count(stream.split(":")[0], tuple(ops), nontrivial=nontrivial(U, ops),
                  sample={"ops": [[U[j]["tag"], oc, cm] for j, oc, cm in ops], "names": [o[0] for o in res["obs"]]})
        ctx.hist(stream.split(":")[0], f"len={len(ops)}")
        if res["oracle"]:
            report_oracle(ctx, U, ops, res["oracle"], stream, seen)
        terms.append(term_seq(nm, ops, res))
        descr.append({"kind": "sequence", "stream": stream, "ops": [[U[j]["tag"], oc, cm] for j, oc, cm in ops],
                      "impl": {"obs": res["obs"], "registry": res["regc"], "files": res["files"], "outs": res["outs"]}})
    return pre, terms, descr, (seqs, results, sinfo)


def restart_stream(ctx, U, full, seen, nm):
    """The same sequences executed (i) in this process and (ii) split over two fresh interpreters."""
    n = 8 if not full else 48
    seqs = []
    cl = dict(fixed_clusters(U))
    pool = cl["identity-fields"] + cl["names-prefix"] + cl["orca-solvation"] + cl["opt-trajectory"][:4]
    for _ in range(n):
        ln = ctx.rng.randint(3, 7)
        seqs.append([ctx.rng.choice(pool) for _ in range(ln)])
    jobs = []
    for k, ops in enumerate(seqs):
        cut = ctx.rng.randint(1, len(ops) - 1)
        d = os.path.join(ctx.work, f"restart{k}")
        jobs.append((k, ops, cut, d))

    def one(job):
        k, ops, cut, d = job
        shutil.rmtree(d, ignore_errors=True)
        os.makedirs(d)
        parts = []
        for pi, part in enumerate((ops[:cut], ops[cut:])):
            jf = os.path.join(ctx.work, f"restart{k}_{pi}.json")
            with open(jf, "w") as f:
                json.dump({"full": is_full(U), "ops": part, "dir": d, "js": [o[0] for o in ops]}, f)
            env = dict(os.environ, PYTHONPATH=f"{REPO}:{VERIF}/harness", PYTHONHASHSEED="0", VERIF_REPO=REPO)
            p = subprocess.run([sys.executable, os.path.abspath(__file__), "--restart-worker", jf], env=env,
                               stdout=subprocess.PIPE, stderr=subprocess.PIPE, text=True, timeout=300)
            if p.returncode != 0:
                return k, None, p.stderr[-2000:]
            parts.append(json.loads(p.stdout.strip().split("\n")[-1]))
        shutil.rmtree(d, ignore_errors=True)
        return k, parts, None

    with ThreadPoolExecutor(max_workers=12) as ex:
        outs = list(ex.map(one, jobs))
    inproc = run_sequences(ctx, U, seqs, "rs", nproc=4)
    terms, descr = [], []
    for (k, parts, err), (_, ops, cut, _), ref in zip(outs, jobs, inproc):
        ctx.count("restart", (tuple(map(tuple, ops)), cut), nontrivial=nontrivial(U, ops),
                  sample={"ops": [[U[j]["tag"], oc, cm] for j, oc, cm in ops], "restart_after": cut})
        if parts is None:
            ctx.violation("restart worker failed: " + (err or ""), {"kind": "restart-worker", "ops": ops}, found_input=False)
            continue
        if ref.get("hang") or ref.get("skipped"):
            continue
        merged = dict(obs=parts[0]["obs"] + parts[1]["obs"], aux=parts[0]["aux"] + parts[1]["aux"],
                      starts=parts[0]["starts"] + parts[1]["starts"], stale=parts[0]["stale"] + parts[1]["stale"],
                      files=parts[1]["files"], outs=parts[1]["outs"], reg=parts[1]["reg"], regc=parts[1]["regc"])
        same = all(merged[x] == ref[x] for x in ("obs", "files", "outs", "regc"))
        if not same:
            seen.setdefault("restart|state-beyond-files", 0)
            seen["restart|state-beyond-files"] += 1
            if seen["restart|state-beyond-files"] == 1:
                ctx.finding("restart|state-beyond-files",
                            "a history split over two fresh processes behaves differently from the same history in one process",
                            {"kind": "restart", "ops": [[U[j]["tag"], oc, cm] for j, oc, cm in ops], "cut": cut,
                             "one_process": {x: ref[x] for x in ("obs", "files", "regc")},
                             "two_processes": {x: merged[x] for x in ("obs", "files", "regc")}})
        terms.append(term_seq(nm, ops, merged, cut=cut))
        descr.append({"kind": "restart", "ops": [[U[j]["tag"], oc, cm] for j, oc, cm in ops], "cut": cut})
    return terms, descr


def real_wrapper_stream(ctx, U, full, seen):
    """The wrappers' OWN execute() — work_in_tmp_dir, run_external, copy-back of kept files — driven
    by a scripted executable: retries after abnormal outputs, two methods, clean-up.  Oracle only
    (the scripted executable leaves no scratch file, so the Coq model of the stand-in does not apply)."""
    idx = {sp["tag"]: j for j, sp in enumerate(U)}
    cl = [(idx["a|xtb|k1|base"], "ONormal", "CNone"), (idx["a|xtb|k1|base"], "OAbnormal", "CNone"),
          (idx["a|xtb|k2|base"], "ONormal", "CNone"), (idx["a|orca|k1|base"], "OAbnormal", "CNone"),
          (idx["a|orca|k1|base"], "ONormal", "CNone"), (idx["a|xtb|k1|pcs"], "ONormal", "CEverything")]
    seqs = all_sequences(cl, 3 if not full else 4)
    results = run_sequences(ctx, U, seqs, "real", real=True)
    for ops, res in zip(seqs, results):
        if res.get("skipped") or res.get("hang"):
            continue
        ctx.count("real-wrapper", tuple(ops), nontrivial=nontrivial(U, ops),
                  sample={"ops": [[U[j]["tag"], oc, cm] for j, oc, cm in ops], "names": [o[0] for o in res["obs"]],
                          "invoked": [o[1] for o in res["obs"]]})
        if res["oracle"]:
            report_oracle(ctx, U, ops, res["oracle"], "real-wrapper", seen)


def keyword_kind_stream(ctx, full, seen):
    """Keyword objects of every kind, EMPTY (what XTB().keywords.sp/opt/grad/hess are) or with the same
    single keyword: the kind is part of the calculation.  Oracle only: with the stand-in output an
    optimisation / gradient / Hessian request cannot set its properties, which the Coq model of
    single points does not describe; names, files, reuse and whose energy was parsed are checked."""
    KU = [spec("a", "xtb", k, "base") for k in ("e_sp", "e_opt", "e_grad", "e_hess", "k1", "k1_grad")]
    for sp in KU:
        sp["full"] = full
    cl = [(j, "ONormal", "CNone") for j in range(len(KU))]
    seqs = all_sequences(cl, 3 if not full else 4)
    results = run_sequences(ctx, KU, seqs, "kinds")
    for ops, res in zip(seqs, results):
        if res.get("skipped") or res.get("hang"):
            continue
        ctx.count("keyword-kinds", tuple(ops), nontrivial=True,
                  sample={"ops": [[KU[j]["tag"], oc, cm] for j, oc, cm in ops], "names": [o[0] for o in res["obs"]]})
        if res["oracle"]:
            report_oracle(ctx, KU, ops, res["oracle"], "keyword-kinds", seen)


def concurrent_stream(ctx, full, seen):
    """W forked workers x rounds, all calling generate_input() at the same moment with pairwise
    distinct names.  Direct oracle: no registry line lost, duplicated or corrupted; model: the file
    after a round is the file before plus exactly the workers' solo lines."""
    W = 4 if not full else 8
    rounds = 12 if not full else 50
    UC = conc_universe(W)
    per = 4
    d = os.path.join(ctx.work, "conc")
    shutil.rmtree(d, ignore_errors=True)
    os.makedirs(d)
    sched = [[w * per + ((r // 3) % 2) + 2 * ((r // 5) % 2) for r in range(rounds)] for w in range(W)]
    c = mp.get_context("fork")
    barrier, q = c.Barrier(W + 1), c.Queue()
    procs = [c.Process(target=_conc_worker, args=(w, UC, sched[w], d, barrier, q)) for w in range(W)]
    for p in procs:
        p.start()
    snaps = []
    reg_path = os.path.join(d, REGISTER)

    def read_reg():
        if not os.path.exists(reg_path):
            return []
        return [ln for ln in open(reg_path).read().split("\n") if ln != ""]
    import threading
    hung = None
    try:
        for r in range(rounds):
            before = read_reg()
            hung = r
            barrier.wait(timeout=60)
            barrier.wait(timeout=60)
            snaps.append((before, read_reg()))
            barrier.wait(timeout=60)
        names = dict(q.get(timeout=60) for _ in range(W))
        hung = None
    except (threading.BrokenBarrierError, Exception) as e:   # noqa: a worker is stuck or died
        ctx.log(f"concurrent stream: workers did not complete round {hung}: {type(e).__name__}")
    finally:
        for p in procs:
            p.join(timeout=(1 if hung is not None else 30))
            if p.is_alive():
                p.terminate()
    if hung is not None:
        if not seen.get("hang"):
            ctx.finding("concurrent|workers-did-not-finish",
                        f"concurrent workers calling generate_input() did not complete round {hung} within 60 s",
                        {"kind": "concurrent", "round": hung, "workers": W,
                         "requests": [UC[sched[w][hung]]["tag"] for w in range(W)]})
        shutil.rmtree(d, ignore_errors=True)
        return PRE, [], []
    cwd = os.getcwd()
    os.chdir(d)
    canon = Canon(UC)
    mods = [model_fields(sp) for sp in UC]
    os.chdir(cwd)
    pre = PRE + CORR_DEFS + "Definition UC : list request :=\n  [" + ";\n   ".join(creq(m) for m in mods) + "].\n"
    inm = Interner()
    terms, descr = [], []
    for r, (before, after) in enumerate(snaps):
        ctx.count("concurrent", ("round", r, W), nontrivial=(len(after) > len(before)),
                  sample={"round": r, "workers": W, "lines_before": len(before), "lines_after": len(after)})
        problems = []
        if after[:len(before)] != before:
            problems.append("earlier registry lines changed")
        new = after[len(before):]
        for ln in after:
            if len(ln.split()) != 2:
                problems.append(f"corrupted line {ln!r}")
        want = {}
        os.chdir(d)
        for w in range(W):
            nm = names[w][r]
            want[nm] = real_id(UC[sched[w][r]], nm)
        os.chdir(cwd)
        for nm, ident in want.items():
            k = sum(1 for ln in after if ln == f"{nm} {ident}")
            if k != 1:
                problems.append(f"line of {nm!r} occurs {k} times")
        for ln in new:
            if ln.split()[0] not in want:
                problems.append(f"foreign new line {ln!r}")
        if problems:
            seen.setdefault("concurrent|registry-entry-lost-or-corrupted", 0)
            seen["concurrent|registry-entry-lost-or-corrupted"] += 1
            if seen["concurrent|registry-entry-lost-or-corrupted"] == 1:
                ctx.finding("concurrent|registry-entry-lost-or-corrupted", "; ".join(problems[:4]),
                            {"kind": "concurrent", "round": r, "workers": W, "before": before, "after": after,
                             "requests": [UC[sched[w][r]]["tag"] for w in range(W)], "names": [names[w][r] for w in range(W)]})
        if full or r % 2 == 0 or problems:
            os.chdir(d)
            cb = coq_list([f"(L {inm(n)} {canon(n, i)})" for n, i in (ln.split(" ", 1) if " " in ln else (ln, "") for ln in before)])
            ca = coq_list([f"(L {inm(n)} {canon(n, i)})" for n, i in (ln.split(" ", 1) if " " in ln else (ln, "") for ln in after)])
            os.chdir(cwd)
            ws = coq_list([str(sched[w][r]) for w in range(W)])
            terms.append(f"chk_conc UC {cb} {ws} {ca}")
            descr.append({"kind": "concurrent-round", "round": r, "before": before, "after": after})
            for w in range(W):
                terms.append(f"chk_conc_name UC {cb} {sched[w][r]} {inm(names[w][r])}")
                descr.append({"kind": "concurrent-name", "round": r, "worker": w, "name": names[w][r]})
    shutil.rmtree(d, ignore_errors=True)
    return pre + inm.defs(), terms, descr


# ------------------------------------------------------------------------------------------------
def model_status(ctx):
    """Which clauses the generated model refutes today (Corr.status_flags)."""
    body = PRE + ("Definition flags := Eval vm_compute in status_flags.\n"
                  "Goal True. let b := eval unfold flags in flags in idtac \"@@FLAGS\" b. exact I. Qed.\n")
    rc, out = ctx.coq_run("c15_status", body, timeout=120)
    if rc != 0 or "@@FLAGS" not in out:
        return None
    vals = [x == "true" for x in __import__("re").findall(r"\b(true|false)\b", out.split("@@FLAGS")[1])]
    keys = ["point-charges", "atoms>100", "distance-rounding", "hyphen", "prefix-cleanup"]
    return {k: (not v) for k, v in zip(keys, vals)}      # True = the model REFUTES the clause


def _cpu():
    t = os.times()
    return f"cpu={t.user + t.system + t.children_user + t.children_system:.0f}s"


def run(ctx):
    sys.path.insert(0, REPO)
    full = not ctx.quick
    seen = {}
    pins_changed = source_pins(ctx.pid, PINS)
    ctx.cov["source_pins"] = {"pinned": len(PINS), "changed": pins_changed}
    if pins_changed:
        ctx.log("source pins changed:", pins_changed)
    # 1. regenerate the model parameters from /repo
    rc, out = sh(["python3", f"{VERIF}/tr/translate_c15.py"], timeout=120)
    ctx.log("translator:", out.strip()[:400])
    translated = rc == 0
    ctx.cov["translator"] = {"ok": translated, "output": out.strip()[:800]}
    # 2. proofs over the regenerated model
    info = {"hygiene": [], "log_tail": out, "build_ok": False}
    proofs_ok = False
    if translated:
        proofs_ok, info = ctx.proofs(SLICE, "C15/Props.v", "AV.C15.Props", extra_targets=["C15/Corr.vo"])
        ctx.log("proofs:", "ok" if proofs_ok else "BROKEN")
        if not proofs_ok:
            ctx.log(info["log_tail"][-1500:])
        ctx.cov["print_assumptions"] = info.get("assumptions", {})
    else:
        ctx.cov["obligations"] += len(ctx.theorems_in("C15/Props.v"))
        ctx.cov["checker_cmd"] = "translator failed closed; proofs not attempted"
    if proofs_ok and full:
        rc, out = sh(["timeout", "900", "coqchk", "-silent", "-o", "-Q", f"{VERIF}/coq", "AV", "AV.C15.Props"], timeout=950)
        okchk = rc == 0 and "Axioms: <none>" in out.replace("\n", " ").replace("  ", " ")
        ctx.cov["coqchk"] = {"ok": okchk, "summary": out[-600:]}
        ctx.log("coqchk -o AV.C15.Props:", "ok, no axioms" if okchk else f"FAILED rc={rc}")
        if not okchk:
            ctx.violation("coqchk rejects the compiled C15 development or reports axioms",
                          {"kind": "proof-obligation", "coqchk": out[-2000:]}, found_input=False)
    n0 = len(ctx.violations)
    IMPL_TIMEOUT[0] = 240 if ctx.quick else 1800
    # 3. implementation-side oracles: the minimal histories of every refuted clause
    try:
        reproduced = targeted_oracles(ctx, seen)
    except ImplementationHang as e:
        ctx.violation(str(e), {"kind": "hang", "stream": "targeted", "histories": "two requests with the same name and different keywords"},
                      found_input=True)
        if not proofs_ok:
            ctx.proof_failure(info, found_any_input=True)
        return
    ctx.log("targeted implementation oracles reproduce:", {k: v for k, v in reproduced.items()})
    ctx.cov["implementation_reproduces"] = reproduced
    # 4. correspondence
    U = universe(full)
    corr_bad, corr_err = [], None
    nm = Interner()
    ctx.log("start " + _cpu())
    try:
        pre, terms, descr, _ = correspondence_sequences(ctx, U, full, seen, nm)
        ctx.log("sequences done " + _cpu())
        real_wrapper_stream(ctx, U, full, seen)
        keyword_kind_stream(ctx, full, seen)
        ctx.log("real-wrapper and keyword-kind streams done " + _cpu())
        rterms, rdescr = restart_stream(ctx, U, full, seen, nm)
        ctx.log("restart done " + _cpu())
    except ImplementationHang as e:
        ctx.violation(str(e), {"kind": "hang", "stream": "sequences"}, found_input=False)
        if not proofs_ok:
            ctx.proof_failure(info, found_any_input=False)
        return
    pre += nm.defs()
    cpre, cterms, cdescr = concurrent_stream(ctx, full, seen)
    ctx.log("concurrent done " + _cpu())
    ctx.log(f"oracle findings by key: {seen} {_cpu()}")
    corr_ok = proofs_ok
    if not corr_ok:
        # the model itself may still build: keep searching for a concrete disagreement
        corr_ok = os.path.exists(f"{VERIF}/coq/gen/C15_Gen.v") and ctx.coq_make(["C15/Corr.vo"])[0]
        ctx.log("proofs broken; model (Corr.vo) " + ("still builds: correspondence is run as a search" if corr_ok else "does not build"))
    if corr_ok:
        status = model_status(ctx)
        ctx.cov["model_refutes"] = status
        ctx.log("model refutes:", status)
        if status is None:
            corr_err = "could not evaluate Corr.status_flags"
        else:
            for k, v in status.items():
                if reproduced.get(k) != v:
                    corr_bad.append(({"kind": "clause-status", "clause": k, "model_refutes": v,
                                      "implementation_reproduces": reproduced.get(k)}, "status_flags"))
        t0 = time.time()
        bad, err = ctx.coq_bad_indices(pre, terms + rterms, per_file=(700 if not full else 2000), name="c15seq", timeout=900)
        corr_bad += [((descr + rdescr)[i], (terms + rterms)[i]) for i in bad]
        bad2, err2 = ctx.coq_bad_indices(cpre, cterms, per_file=60, name="c15conc", timeout=900)
        corr_bad += [(cdescr[i], cterms[i]) for i in bad2]
        corr_err = corr_err or err or err2
        ctx.log(f"correspondence: {len(terms)} + {len(rterms)} + {len(cterms)} terms, {len(corr_bad)} disagreements "
                f"({time.time() - t0:.1f}s) {_cpu()}" + (f"; coq error {corr_err[:300]}" if corr_err else ""))
        ctx.cov["disagreements"] = len(corr_bad)
    ctx.check_known_still_fail(list(seen))
    # 5. decide
    new_findings = len(ctx.violations) - n0
    if not proofs_ok:
        ctx.proof_failure(info, found_any_input=(new_findings > 0))
    if pins_changed and new_findings == 0 and proofs_ok and not (corr_bad or corr_err):
        ctx.violation("hand model no longer pinned to the source: " + ", ".join(pins_changed),
                      {"kind": "source-pin", "changed": pins_changed}, found_input=False)
    if corr_bad or corr_err:
        if new_findings == 0:
            ctx.violation("model and implementation disagree and no property-level oracle failed on the implementation",
                          {"kind": "correspondence", "first": [d for d, _ in corr_bad[:4]],
                           "coq_terms": [t[:3000] for _, t in corr_bad[:2]], "coq_error": corr_err}, found_input=False)
        else:
            ctx.log("correspondence disagreements accompany the implementation-level findings above")
            ctx.cov["first_disagreements"] = [d for d, _ in corr_bad[:6]]


def replay(ctx, obj):
    sys.path.insert(0, REPO)
    rep = obj.get("replay", {})
    if rep.get("kind") != "sequence":
        print("replay: stored object is not an operation sequence:", rep.get("kind"), "-", obj.get("what"))
        return 1
    seen = {}
    if rep["stream"].startswith("targeted:"):
        r = targeted_oracles(ctx, seen, only=rep["stream"].split(":", 1)[1])
        print("replay:", rep["ops"], "-> reproduces:", r)
        return 1 if any(r.values()) else 0
    U = universe(rep.get("universe_full", False))
    if rep.get("stream") == "keyword-kinds":
        U = [spec("a", "xtb", k, "base") for k in ("e_sp", "e_opt", "e_grad", "e_hess", "k1", "k1_grad")]
    idx = {sp["tag"]: j for j, sp in enumerate(U)}
    ops = [(idx[t], oc, cm) for t, oc, cm in rep["ops"]]
    res = _job_sequences((U, [ops], os.path.join(ctx.work, "replay"), rep.get("stream", "").startswith("real-wrapper")))[0]
    if res.get("hang"):
        print("replay:", rep["ops"], "-> did not terminate within", SEQ_TIMEOUT, "s")
        return 1
    fails = res["oracle"]
    print("replay:", rep["ops"])
    print("  names/invoked/energy-of/raised:", res["obs"])
    print("  oracle:", fails)
    return 1 if fails else 0


def _restart_worker(jobfile):
    job = json.load(open(jobfile))
    U = universe(job["full"])
    ops = [tuple(o) for o in job["ops"]]
    res = run_ops_impl(U, ops, job["dir"], start_fresh=False)
    cwd = os.getcwd()
    os.chdir(job["dir"])
    canon = Canon(U)
    js = sorted(set(job["js"]))
    res["regc"] = [[n, canon(n, i, js)] for n, i in res["reg"]]
    os.chdir(cwd)
    res.pop("snaps")
    print(json.dumps(res))


MANIFEST = {
    "technique": "Coq proof over a hand model of the calculation registry / reuse / clean-up state machine whose parameters "
                 "(hashed field list, skip rule, selection rule, file extensions, trajectory suffix) are regenerated from source by "
                 "an ast translator, 57 source pins for the hand-modelled functions and their transitive dunder/helper dependencies, "
                 "+ bounded-exhaustive / random / restart / concurrent / real-wrapper correspondence and oracles against the real code",
    "level_text": ("Machine-checked theorems (coq/C15/Props.v, closed under the global context), each over ALL request histories by "
                   "induction, for names in printable ASCII without blanks: the suffix loop of _fix_unique terminates on every "
                   "registry; an identical request issued through a NEW object gets the same name after any further history and "
                   "appends nothing; requests whose PRINTED identity fields differ (method name, repr(keywords), species name, "
                   "charge, multiplicity, composition, solvent, solvation model, printed cartesian constraints, point charges) or "
                   "whose hyphen-normalised requested names differ never share a name; every result parsed in any reachable "
                   "directory (new or re-used external object; optimisation object run as built) comes from an output / trajectory "
                   "produced by a request of the same identity; an output is reused only if it exists and terminated normally; a "
                   "missing declared input means nothing is run or parsed; clean-up without everything=True removes only files "
                   "written in this run PROVIDED the object declares no stale additional files; every interleaving of concurrent "
                   "workers that each register ONE calculation with disjoint candidate names equals the sequential result.  "
                   "Clauses FALSE of the faithful model are proved refuted with witnesses: distances rounded to 3 decimals, '-a' vs "
                   "'_-a', names containing blanks, clean_up prefix match, clean_up of stale declarations of a re-used object, "
                   "re-used object renamed, optimisation object changed after construction."),
    "level_note": ("PARTIAL / trusted: sha1/base64/f-string concatenation injective on the tuples that occur (the model identity is "
                   "the tuple); the theorems speak about PRINTED forms - keyword objects whose method string differs but print alike, "
                   "and constraints given in another insertion order, are seen by implementation oracles only (both are reported "
                   "findings); restart_equivalence_partial is a fold identity of the model (the code's statelessness is exercised by "
                   "the restart stream only); the interleaving theorem covers one barrier-synchronised registration per worker (no "
                   "cross-round interleaving, no run()/clean_up, no optimisation executor); atomic append of one registry line is "
                   "ASSUMED; wrapper-declared additional files enter as an oracle (written / stale split by modification time); the "
                   "wrappers' own execute path (work_in_tmp_dir, run_external) is exercised by the oracle-only real-wrapper stream, the "
                   "Coq correspondence uses an in-process stand-in; only Molecule species, xtb/orca wrappers and a mock internal "
                   "method are run; CalculationExecutorG/H, _run_single_energy_evaluation and set_output_filename are pinned but "
                   "neither modelled nor run; names with line breaks / non-ASCII blanks are outside the model (excluded by `clean`)."),
}


if __name__ == "__main__":
    if len(sys.argv) == 3 and sys.argv[1] == "--restart-worker":
        _restart_worker(sys.argv[2])
